(* The converse of the round trip: what a primitive reader ACCEPTS is an encoding of the value it
   returns, followed by the unread rest.  Together with prim_roundtrip (reader after writer is the
   identity) this says that each strict reader accepts EXACTLY the writer's encodings.

     prim_reader_accepts_only_encodings   the strict codecs (everything but bool and the compact
                                          string/bytes codecs): input = writer output ++ rest
     bool_reader_accepts                  the boolean reader: any byte, non-zero means True
     uvarint_n_reader_accepts             the bare unsigned varint reader of at most k bytes
     uvarint_reader_accepts / uvarlong_reader_accepts / svarint_reader_accepts /
     svarlong_reader_accepts              its four instances
     uvarint_canonical_is_writer_output   a prefix without a redundant trailing zero group IS the
                                          writer's output for the value it decodes to
     compact_reader_accepts               the compact string/bytes readers: varint prefix of at
                                          most 5 bytes decoding to k, payload of k-1 bytes, null
                                          only for k = 0
     compact_reader_accepts_only_encodings_when_minimal / _when_canonical
                                          minimal prefix implies the input is the writer's output
     *_refuted                            concrete witnesses that the lenient readers are lenient

   Stdlib only, no axioms. *)
From Coq Require Import ZArith List Bool Lia.
From KioV Require Import Base.Res Base.Prog Base.ProgProofs
  Prim.Bytes Prim.Varint Prim.Utf8 Prim.Time Prim.BytesProofs Prim.VarintProofs
  Codec.Value Codec.PrimCodec Codec.PrimCodecProofs.
Import ListNotations.
Open Scope Z_scope.

(* ------------------------------------------------------------------------------------------ *)
(* generic inversions *)
Lemma run_bind_inv {A B} (p : prog A) (f : A -> prog B) bs y :
  run (bind p f) bs = Ok y -> exists a r, run p bs = Ok (a, r) /\ run (f a) r = Ok y.
Proof.
  rewrite run_bind. destruct (run p bs) as [[a r]|e]; [|discriminate].
  intros H. exists a, r. split; [reflexivity|exact H].
Qed.

Lemma run_read_split {A} n (k : list Z -> prog A) bs x :
  run (Read n k) bs = Ok x ->
  exists c r, bs = c ++ r /\ zlen c = n /\ run (k c) r = Ok x.
Proof.
  intros H. apply run_read_ok in H. destruct H as (H1 & H2 & H3).
  exists (firstn (Z.to_nat n) bs), (skipn (Z.to_nat n) bs).
  split; [symmetry; apply firstn_skipn|]. split; [apply firstn_zlen; lia|exact H3].
Qed.

Lemma run_ret_inv {A} (a : A) bs x r : run (Ret a) bs = Ok (x, r) -> x = a /\ r = bs.
Proof. cbn [run]. intros H. inversion H. split; reflexivity. Qed.

(* ------------------------------------------------------------------------------------------ *)
(* fixed-width integers *)
Lemma to_signed_mod_back w u : 0 <= u < 2 ^ (8 * Z.of_nat w) ->
  to_signed w u mod 2 ^ (8 * Z.of_nat w) = u.
Proof.
  intros Hu. unfold to_signed.
  destruct (Z.leb_spec (2 ^ (8 * Z.of_nat w - 1)) u).
  - symmetry. apply Z.mod_unique with (-1); lia.
  - apply Z.mod_small. lia.
Qed.

Lemma read_int_accepts w s bs z rest : (0 < w)%nat -> bytes_ok bs = true ->
  run (read_int w s) bs = Ok (z, rest) ->
  exists enc, write_int w s z = Ok enc /\ bs = enc ++ rest.
Proof.
  intros Hw Hb H. pose proof (read_int_range _ _ _ _ _ Hw Hb H) as Hr.
  rewrite (write_int_ok _ _ _ Hr).
  unfold read_int in H. apply run_read_split in H. destruct H as (c & r & Hbs & Hc & H).
  apply run_ret_inv in H. destruct H as [Hz Hrest]. subst bs r.
  eexists. split; [reflexivity|]. f_equal.
  rewrite bytes_ok_app in Hb. apply andb_true_iff in Hb. destruct Hb as [Hbc _].
  assert (Hl : length c = w) by (unfold zlen in Hc; lia).
  pose proof (be_val_bound c Hbc) as Hv. rewrite Hl, <- pow256 in Hv.
  assert (Hm : z mod 2 ^ (8 * Z.of_nat w) = be_val c).
  { subst z. destruct s; [apply to_signed_mod_back; exact Hv|apply Z.mod_small; exact Hv]. }
  rewrite Hm. rewrite <- Hl. symmetry. apply be_bytes_be_val. exact Hbc.
Qed.

(* ------------------------------------------------------------------------------------------ *)
(* legacy (fixed-width length prefix) blobs *)
Lemma legacy_gen_accepts w n k bs v rest : (0 < w)%nat -> bytes_ok bs = true ->
  run (read_legacy_gen w n k) bs = Ok (v, rest) ->
  (n = true /\ v = VNull /\ exists enc, write_int w true (-1) = Ok enc /\ bs = enc ++ rest) \/
  (exists b r enc, write_legacy_blob w b = Ok enc /\ bs = enc ++ r /\ run (k b) r = Ok (v, rest)).
Proof.
  intros Hw Hb H. unfold read_legacy_gen in H. apply run_bind_inv in H.
  destruct H as (len & r0 & H1 & H2).
  pose proof (read_int_range _ _ _ _ _ Hw Hb H1) as Hrange.
  destruct (read_int_accepts _ _ _ _ _ Hw Hb H1) as (p & Hp & Hbs).
  destruct (Z.eqb_spec len (-1)) as [Hl|Hl].
  - left. subst len. unfold null_or in H2. destruct n; cbn [run] in H2; [|discriminate H2].
    inversion H2; subst. split; [reflexivity|]. split; [reflexivity|]. exists p. split; [exact Hp|reflexivity].
  - right. apply run_read_split in H2. destruct H2 as (c & r & Hr0 & Hc & H2).
    exists c, r, (p ++ c). split; [|split; [|exact H2]].
    + unfold write_legacy_blob. rewrite Hc, Hrange, Hp. reflexivity.
    + rewrite Hbs, Hr0, app_assoc. reflexivity.
Qed.

Lemma decode_str_inv b r v rest :
  run (decode_str b) r = Ok (v, rest) -> v = VStr b /\ utf8_valid b = true /\ rest = r.
Proof.
  unfold decode_str. destruct (utf8_valid b); cbn [run]; intros H; [|discriminate H].
  inversion H. repeat split; reflexivity.
Qed.

Lemma k_bytes_inv b r v rest : run (k_bytes b) r = Ok (v, rest) -> v = VBytes b /\ rest = r.
Proof. unfold k_bytes. cbn [run]. intros H. inversion H. split; reflexivity. Qed.

(* ------------------------------------------------------------------------------------------ *)
(* uuid *)
Lemma all_zero_repeat l : forallb (Z.eqb 0) l = true -> l = repeat 0 (length l).
Proof.
  induction l as [|x l IH]; cbn [forallb length repeat]; intros H; [reflexivity|].
  apply andb_true_iff in H. destruct H as [Hx Hl]. apply Z.eqb_eq in Hx. subst x.
  f_equal. apply IH. exact Hl.
Qed.

(* ------------------------------------------------------------------------------------------ *)
(* durations and timestamps *)
Lemma rhe_millis n : round_half_even_1000 (n * 1000) = n.
Proof.
  rewrite rhe_exact by (apply Z.mod_mul; lia). apply Z.div_mul. lia.
Qed.

Lemma timedelta_accepts w bs v rest : (0 < w)%nat -> bytes_ok bs = true ->
  run (read_timedelta w) bs = Ok (v, rest) ->
  exists enc, write_timedelta w v = Ok enc /\ bs = enc ++ rest.
Proof.
  intros Hw Hb H. unfold read_timedelta in H. apply run_bind_inv in H.
  destruct H as (n & r & H1 & H2). apply run_bind_inv in H2. destruct H2 as (us & r' & H3 & H4).
  rewrite run_lift in H3. unfold td_of_millis in H3. cbv zeta in H3.
  destruct ((td_min_us <=? n * 1000) && (n * 1000 <=? td_max_us)); [|discriminate H3].
  inversion H3; subst us r'. apply run_ret_inv in H4. destruct H4 as [-> ->].
  cbn [write_timedelta]. rewrite rhe_millis. eapply read_int_accepts; eassumption.
Qed.

Lemma datetime_accepts n bs v rest : bytes_ok bs = true ->
  run (read_datetime n) bs = Ok (v, rest) ->
  exists enc, write_datetime n v = Ok enc /\ bs = enc ++ rest.
Proof.
  intros Hb H. unfold read_datetime in H. apply run_bind_inv in H.
  destruct H as (ms & r & H1 & H2).
  destruct (read_int_accepts 8 true _ _ _ ltac:(lia) Hb H1) as (p & Hp & Hbs).
  destruct (n && (ms =? -1)) eqn:E.
  - apply andb_true_iff in E. destruct E as [-> E]. apply Z.eqb_eq in E. subst ms.
    apply run_ret_inv in H2. destruct H2 as [-> ->]. cbn [write_datetime].
    exists p. split; [exact Hp|exact Hbs].
  - apply run_bind_inv in H2. destruct H2 as (us & r' & H3 & H4).
    rewrite run_lift in H3. unfold tz_aware_from_millis in H3. cbv zeta in H3.
    destruct ((ms * 1000 <? dt_min_us) || (dt_max_us <? ms * 1000)); [discriminate H3|].
    destruct (ms * 1000 <? 0); [discriminate H3|].
    inversion H3; subst us r'. apply run_ret_inv in H4. destruct H4 as [-> ->].
    cbn [write_datetime]. rewrite rhe_millis. exists p. split; [exact Hp|exact Hbs].
Qed.

(* ------------------------------------------------------------------------------------------ *)
(* 1. the strict codecs *)
Definition strict_codec (p : pcodec) : bool :=
  match p with
  | PBool | PStr true _ | PBytes true _ => false
  | PInt w _ => Nat.ltb 0 w
  | _ => true
  end.

Theorem prim_reader_accepts_only_encodings : forall ec p bs v rest,
  strict_codec p = true -> bytes_ok bs = true ->
  run (dec_prim ec p) bs = Ok (v, rest) ->
  exists enc, enc_prim p v = Ok enc /\ bs = enc ++ rest.
Proof.
  intros ec p bs v rest Hs Hb H.
  destruct p as [w s| | | |c n|c n| | | |n]; cbn [strict_codec] in Hs; try discriminate Hs.
  - (* PInt *)
    apply Nat.ltb_lt in Hs. cbn [dec_prim] in H. apply run_bind_inv in H.
    destruct H as (z & r & H1 & H2). apply run_ret_inv in H2. destruct H2 as [-> ->].
    cbn [enc_prim]. eapply read_int_accepts; eassumption.
  - (* PF64 *)
    cbn [dec_prim] in H. unfold read_float64 in H. apply run_bind_inv in H.
    destruct H as (z & r & H1 & H2). apply run_ret_inv in H2. destruct H2 as [-> ->].
    cbn [enc_prim]. eapply read_int_accepts; [lia|eassumption|eassumption].
  - (* PErrorCode *)
    cbn [dec_prim] in H. unfold read_error_code in H. apply run_bind_inv in H.
    destruct H as (z & r & H1 & H2).
    destruct (known_error_code ec z); [|discriminate H2].
    apply run_ret_inv in H2. destruct H2 as [-> ->].
    cbn [enc_prim]. eapply read_int_accepts; [lia|eassumption|eassumption].
  - (* PStr *)
    destruct c; [discriminate Hs|]. rewrite dec_str_legacy in H.
    apply legacy_gen_accepts in H; [|lia|exact Hb].
    destruct H as [(-> & -> & enc & He & Hbs)|(b & r & enc & He & Hbs & Hk)].
    + exists enc. split; [exact He|exact Hbs].
    + apply decode_str_inv in Hk. destruct Hk as (-> & _ & ->).
      exists enc. split; [exact He|exact Hbs].
  - (* PBytes *)
    destruct c; [discriminate Hs|]. rewrite dec_bytes_legacy in H.
    apply legacy_gen_accepts in H; [|lia|exact Hb].
    destruct H as [(-> & -> & enc & He & Hbs)|(b & r & enc & He & Hbs & Hk)].
    + exists enc. split; [exact He|exact Hbs].
    + apply k_bytes_inv in Hk. destruct Hk as (-> & ->).
      exists enc. split; [exact He|exact Hbs].
  - (* PUuid *)
    cbn [dec_prim] in H. unfold read_uuid in H. apply run_read_split in H.
    destruct H as (c & r & Hbs & Hc & H). apply run_ret_inv in H. destruct H as [Hv ->].
    destruct (forallb (Z.eqb 0) c) eqn:E; subst v; cbn [enc_prim].
    + exists (repeat 0 16). split; [reflexivity|]. rewrite Hbs. f_equal.
      assert (Hl : length c = 16%nat) by (unfold zlen in Hc; lia).
      pose proof (all_zero_repeat c E) as Hz. rewrite Hl in Hz. exact Hz.
    + exists c. split; [reflexivity|exact Hbs].
  - (* PTd32 *)
    cbn [dec_prim] in H. apply timedelta_accepts in H; [|lia|exact Hb].
    destruct H as (enc & He & Hbs). exists enc. split; [|exact Hbs].
    destruct v; cbn [write_timedelta] in He; try discriminate He. exact He.
  - (* PTd64 *)
    cbn [dec_prim] in H. apply timedelta_accepts in H; [|lia|exact Hb].
    destruct H as (enc & He & Hbs). exists enc. split; [|exact Hbs].
    destruct v; cbn [write_timedelta] in He; try discriminate He. exact He.
  - (* PDt *)
    cbn [dec_prim] in H. apply datetime_accepts in H; [|exact Hb].
    destruct H as (enc & He & Hbs). exists enc. split; [|exact Hbs].
    destruct v; cbn [write_datetime] in He; try discriminate He; exact He.
Qed.
Print Assumptions prim_reader_accepts_only_encodings.

Example prim_reader_accepts_only_encodings_nonvacuous :
  strict_codec (PStr false true) = true /\
  bytes_ok [0; 2; 104; 105; 9] = true /\
  run (dec_prim [] (PStr false true)) [0; 2; 104; 105; 9] = Ok (VStr [104; 105], [9]) /\
  enc_prim (PStr false true) (VStr [104; 105]) = Ok [0; 2; 104; 105] /\
  run (dec_prim [] (PStr false true)) [255; 255; 9] = Ok (VNull, [9]) /\
  enc_prim (PStr false true) VNull = Ok [255; 255] /\
  run (dec_prim [] PTd32) [255; 255; 255; 254; 7] = Ok (VDur (-2000), [7]) /\
  enc_prim PTd32 (VDur (-2000)) = Ok [255; 255; 255; 254].
Proof. vm_compute. repeat split; reflexivity. Qed.

(* the codecs excluded by strict_codec really are lenient (in the model, as in Kafka):
   - boolean: every non-zero byte reads as True, the writer emits 1
   - compact string/bytes: the unsigned-varint length prefix need not be minimal
   - PInt 0 true: the degenerate zero-width signed integer reads -1 from nothing, and
     no value is in its range *)
Example bool_reader_accepts_only_encodings_refuted :
  run (dec_prim [] PBool) [2] = Ok (VBool true, []) /\
  enc_prim PBool (VBool true) = Ok [1].
Proof. vm_compute. split; reflexivity. Qed.

Example compact_string_reader_accepts_only_encodings_refuted :
  run (dec_prim [] (PStr true false)) [131; 0; 104; 105] = Ok (VStr [104; 105], []) /\
  enc_prim (PStr true false) (VStr [104; 105]) = Ok [3; 104; 105] /\
  run (dec_prim [] (PStr true true)) [128; 0] = Ok (VNull, []) /\
  enc_prim (PStr true true) VNull = Ok [0].
Proof. vm_compute. repeat split; reflexivity. Qed.

Example compact_bytes_reader_accepts_only_encodings_refuted :
  run (dec_prim [] (PBytes true false)) [131; 0; 104; 105] = Ok (VBytes [104; 105], []) /\
  enc_prim (PBytes true false) (VBytes [104; 105]) = Ok [3; 104; 105] /\
  run (dec_prim [] (PBytes true true)) [128; 0] = Ok (VNull, []) /\
  enc_prim (PBytes true true) VNull = Ok [0].
Proof. vm_compute. repeat split; reflexivity. Qed.

Example zero_width_signed_reader_accepts_only_encodings_refuted :
  run (dec_prim [] (PInt 0 true)) [] = Ok (VInt (-1), []) /\
  enc_prim (PInt 0 true) (VInt (-1)) = Err EStruct.
Proof. vm_compute. split; reflexivity. Qed.

(* the hypothesis bytes_ok is needed: the model's be_val is defined on any list of integers *)
Example non_byte_input_refuted :
  run (dec_prim [] (PInt 1 false)) [256] = Ok (VInt 256, []) /\
  enc_prim (PInt 1 false) (VInt 256) = Err EStruct.
Proof. vm_compute. split; reflexivity. Qed.

(* ------------------------------------------------------------------------------------------ *)
(* 2a. the boolean reader *)
Theorem bool_reader_accepts : forall ec bs v rest,
  run (dec_prim ec PBool) bs = Ok (v, rest) ->
  exists x, bs = x :: rest /\ v = VBool (negb (x =? 0)).
Proof.
  intros ec bs v rest H. cbn [dec_prim] in H. unfold read_boolean in H.
  apply run_read_split in H. destruct H as (c & r & Hbs & Hc & H).
  apply run_ret_inv in H. destruct H as [-> ->].
  destruct c as [|x [|y c]]; unfold zlen in Hc; cbn [length] in Hc; try lia.
  exists x. split; [exact Hbs|reflexivity].
Qed.
Print Assumptions bool_reader_accepts.

Example bool_reader_accepts_nonvacuous :
  run (dec_prim [] PBool) [7; 9] = Ok (VBool true, [9]) /\
  run (dec_prim [] PBool) [0; 9] = Ok (VBool false, [9]).
Proof. vm_compute. split; reflexivity. Qed.

(* the canonical bytes 0 and 1 are exactly the writer's output *)
Corollary bool_reader_accepts_only_encodings_when_canonical : forall ec bs v rest x,
  run (dec_prim ec PBool) bs = Ok (v, rest) -> bs = x :: rest -> (x = 0 \/ x = 1) ->
  exists enc, enc_prim PBool v = Ok enc /\ bs = enc ++ rest.
Proof.
  intros ec bs v rest x H Hbs Hx. apply bool_reader_accepts in H.
  destruct H as (y & Hy & ->). rewrite Hbs in Hy. inversion Hy; subst y.
  destruct Hx as [-> | ->]; cbn; eexists; (split; [reflexivity|exact Hbs]).
Qed.

(* ------------------------------------------------------------------------------------------ *)
(* 3. bare varints *)

(* a byte with the continuation bit *)
Definition cont_bit (b : Z) : Prop := Z.land b 128 <> 0.
(* all bytes but the last carry the continuation bit, the last does not *)
Definition varint_shape (pre : list Z) : Prop :=
  exists init last, pre = init ++ [last] /\ Forall cont_bit init /\ Z.land last 128 = 0.
(* little-endian base-128 value of the low seven bits *)
Fixpoint uv_val (pre : list Z) : Z :=
  match pre with
  | [] => 0
  | b :: t => Z.lor (Z.land b 127) (Z.shiftl (uv_val t) 7)
  end.
(* no redundant trailing zero group: a single byte, or a non-zero last byte *)
Definition uvarint_canonical (pre : list Z) : Prop :=
  length pre = 1%nat \/ last pre 0 <> 0.

Lemma read_uvarint_aux_accepts : forall n shift acc bs z rest, 0 <= shift ->
  run (read_uvarint_aux n shift acc) bs = Ok (z, rest) ->
  exists pre, bs = pre ++ rest /\ varint_shape pre /\ (length pre <= n)%nat /\
              z = Z.lor acc (Z.shiftl (uv_val pre) shift).
Proof.
  induction n as [|n IH]; intros shift acc bs z rest Hs H; cbn [read_uvarint_aux] in H.
  - cbn [run] in H. discriminate H.
  - apply run_read_split in H. destruct H as (c & r & Hbs & Hc & H).
    destruct c as [|x [|y c]]; unfold zlen in Hc; cbn [length] in Hc; try lia.
    cbv beta zeta in H. cbn [hd] in H.
    destruct (Z.eqb_spec (Z.land x 128) 0) as [E|E].
    + apply run_ret_inv in H. destruct H as [-> ->]. exists [x].
      split; [exact Hbs|]. split.
      * exists [], x. split; [reflexivity|]. split; [constructor|exact E].
      * split; [cbn [length]; lia|]. cbn [uv_val]. rewrite Z.shiftl_0_l, Z.lor_0_r. reflexivity.
    + apply IH in H; [|lia].
      destruct H as (pre & Hr & (init & lst & Hpre & Hi & Hl) & Hlen & Hz).
      exists (x :: pre). split; [rewrite Hbs, Hr; reflexivity|]. split.
      * exists (x :: init), lst. split; [rewrite Hpre; reflexivity|].
        split; [constructor; [exact E|exact Hi]|exact Hl].
      * split; [cbn [length]; lia|]. rewrite Hz. cbn [uv_val].
        rewrite Z.shiftl_lor, Z.shiftl_shiftl by lia. rewrite Z.lor_assoc.
        do 2 f_equal. lia.
Qed.

Lemma uv_val_nonneg pre : 0 <= uv_val pre.
Proof.
  induction pre as [|b t IH]; cbn [uv_val]; [lia|].
  apply Z.lor_nonneg. split.
  - rewrite land127. apply Z.mod_pos_bound. lia.
  - apply Z.shiftl_nonneg. exact IH.
Qed.

(* the bare reader of at most k bytes *)
Theorem uvarint_n_reader_accepts : forall k bs z rest,
  run (read_uvarint_n k) bs = Ok (z, rest) ->
  exists pre, bs = pre ++ rest /\ varint_shape pre /\ (length pre <= k)%nat /\
              z = uv_val pre /\ 0 <= z < 2 ^ (7 * Z.of_nat k) /\
              (forall tl, run (read_uvarint_n k) (pre ++ tl) = Ok (z, tl)).
Proof.
  intros k bs z rest H. pose proof H as H0. unfold read_uvarint_n in H.
  assert (Hb : 0 <= z < 2 ^ (0 + 7 * Z.of_nat k)).
  { eapply read_uvarint_aux_bound; [| |exact H]; [lia|change (2 ^ 0) with 1; lia]. }
  rewrite Z.add_0_l in Hb.
  apply read_uvarint_aux_accepts in H; [|lia].
  destruct H as (pre & Hbs & Hsh & Hlen & Hz).
  exists pre. split; [exact Hbs|]. split; [exact Hsh|]. split; [exact Hlen|].
  split; [rewrite Hz, Z.shiftl_0_r, Z.lor_0_l; reflexivity|].
  split; [exact Hb|]. intros tl. subst bs. eapply run_tail_irrelevant'. exact H0.
Qed.
Print Assumptions uvarint_n_reader_accepts.

Theorem uvarint_reader_accepts : forall bs z rest,
  run read_uvarint bs = Ok (z, rest) ->
  exists pre, bs = pre ++ rest /\ varint_shape pre /\ (length pre <= 5)%nat /\
              z = uv_val pre /\ 0 <= z < 2 ^ 35 /\
              (forall tl, run read_uvarint (pre ++ tl) = Ok (z, tl)).
Proof. intros bs z rest H. exact (uvarint_n_reader_accepts 5 bs z rest H). Qed.
Print Assumptions uvarint_reader_accepts.

Theorem uvarlong_reader_accepts : forall bs z rest,
  run read_uvarlong bs = Ok (z, rest) ->
  exists pre, bs = pre ++ rest /\ varint_shape pre /\ (length pre <= 10)%nat /\
              z = uv_val pre /\ 0 <= z < 2 ^ 70 /\
              (forall tl, run read_uvarlong (pre ++ tl) = Ok (z, tl)).
Proof. intros bs z rest H. exact (uvarint_n_reader_accepts 10 bs z rest H). Qed.
Print Assumptions uvarlong_reader_accepts.

Example uvarint_reader_accepts_nonvacuous :
  run read_uvarint [172; 2; 9] = Ok (300, [9]) /\
  uv_val [172; 2] = 300 /\ write_varint 300 = Ok [172; 2] /\
  (* a non-minimal prefix is accepted as well *)
  run read_uvarint [172; 130; 0; 9] = Ok (300, [9]) /\ uv_val [172; 130; 0] = 300.
Proof. vm_compute. repeat split; reflexivity. Qed.

(* ---- a canonical prefix is the writer's output ---- *)
Lemma byte_ok_spec b : byte_ok b = true <-> 0 <= b < 256.
Proof. unfold byte_ok. rewrite andb_true_iff, Z.leb_le, Z.ltb_lt. tauto. Qed.

Lemma lor128_eq c : 0 <= c < 128 -> Z.lor 128 c = 128 + c.
Proof.
  intros Hc.
  assert (Hl: Z.land 128 c = 0) by (rewrite Z.land_comm; apply small_land128; lia).
  rewrite <- Z.lxor_lor by exact Hl. symmetry. apply Z.add_nocarry_lxor. exact Hl.
Qed.

Lemma byte_low b : 0 <= b < 256 -> Z.land b 128 = 0 -> b < 128.
Proof.
  intros Hb H. destruct (Z.ltb_spec b 128) as [Hlt|Hge]; [exact Hlt|]. exfalso.
  assert (Hr : b = Z.lor 128 (b - 128)) by (rewrite lor128_eq; lia).
  rewrite Hr in H. exact (lor128_land128 _ H).
Qed.

Lemma byte_high b : 0 <= b -> Z.land b 128 <> 0 -> 128 <= b.
Proof.
  intros Hb H. destruct (Z.ltb_spec b 128) as [Hlt|Hge]; [|exact Hge]. exfalso.
  apply H. apply small_land128. lia.
Qed.

Lemma lor_shiftl7 c V : 0 <= c < 128 -> 0 <= V -> Z.lor c (Z.shiftl V 7) = c + 128 * V.
Proof.
  intros Hc HV.
  assert (Hl : Z.land c (Z.shiftl V 7) = 0).
  { apply Z.bits_inj'. intros n Hn. rewrite Z.land_spec, Z.bits_0.
    destruct (Z.ltb_spec n 7).
    - rewrite Z.shiftl_spec_low by lia. apply andb_false_r.
    - rewrite (Z.bits_above_log2 c n); [reflexivity|lia|].
      destruct (Z.eqb_spec c 0) as [->|Hnz]; [simpl; lia|].
      apply Z.lt_le_trans with 7; [apply Z.log2_lt_pow2; [lia|change (2 ^ 7) with 128; lia]|lia]. }
  rewrite <- Z.lxor_lor by exact Hl. rewrite <- Z.add_nocarry_lxor by exact Hl.
  rewrite Z.shiftl_mul_pow2 by lia. change (2 ^ 7) with 128. lia.
Qed.

Lemma uv_val_cons b t : uv_val (b :: t) = b mod 128 + 128 * uv_val t.
Proof.
  cbn [uv_val]. rewrite land127. apply lor_shiftl7; [apply Z.mod_pos_bound; lia|apply uv_val_nonneg].
Qed.

Lemma uv_val_single l : 0 <= l < 128 -> uv_val [l] = l.
Proof. intros Hl. rewrite uv_val_cons. cbn [uv_val]. rewrite Z.mod_small by lia. lia. Qed.

Lemma uv_val_pos : forall init l, 0 < l < 128 -> 0 < uv_val (init ++ [l]).
Proof.
  induction init as [|x init IH]; intros l Hl; cbn [app].
  - rewrite uv_val_single by lia. lia.
  - rewrite uv_val_cons. specialize (IH l Hl). pose proof (Z.mod_pos_bound x 128). lia.
Qed.

Lemma wv_small fuel v : 0 <= v < 128 -> wv fuel v = [v].
Proof.
  intros Hv.
  assert (Hl: Z.land v 127 = v) by (rewrite land127; apply Z.mod_small; lia).
  destruct fuel as [|f]; cbn [wv]; [rewrite Hl; reflexivity|].
  replace (Z.shiftr v 7) with 0.
  - cbn. rewrite Hl. reflexivity.
  - rewrite Z.shiftr_div_pow2 by lia. change (2 ^ 7) with 128. symmetry. apply Z.div_small. lia.
Qed.

Lemma wv_uv_val : forall init l fuel,
  bytes_ok (init ++ [l]) = true -> Forall cont_bit init -> Z.land l 128 = 0 ->
  (init = [] \/ l <> 0) -> (length init <= fuel)%nat ->
  wv fuel (uv_val (init ++ [l])) = init ++ [l].
Proof.
  induction init as [|x init IH]; intros l fuel Hb Hi Hl Hc Hlen; cbn [app] in *.
  - unfold bytes_ok in Hb. cbn [forallb] in Hb. rewrite andb_true_r in Hb.
    apply byte_ok_spec in Hb. pose proof (byte_low l Hb Hl) as Hlt.
    rewrite uv_val_single by lia. apply wv_small. lia.
  - unfold bytes_ok in Hb. cbn [forallb] in Hb. apply andb_true_iff in Hb.
    destruct Hb as [Hx Hb]. apply byte_ok_spec in Hx.
    inversion Hi as [|x' init' Hcx Hi']; subst x' init'.
    assert (Hlne : l <> 0) by (destruct Hc as [Hc|Hc]; [discriminate Hc|exact Hc]).
    assert (Hlb : 0 < l < 128).
    { assert (Hbl : byte_ok l = true).
      { fold (bytes_ok (init ++ [l])) in Hb. rewrite bytes_ok_app in Hb.
        apply andb_true_iff in Hb. destruct Hb as [_ Hb]. unfold bytes_ok in Hb.
        cbn [forallb] in Hb. rewrite andb_true_r in Hb. exact Hb. }
      apply byte_ok_spec in Hbl. pose proof (byte_low l Hbl Hl). lia. }
    pose proof (uv_val_pos init l Hlb) as HV.
    pose proof (byte_high x ltac:(lia) Hcx) as Hxh.
    rewrite uv_val_cons. set (V := uv_val (init ++ [l])) in *.
    assert (Hxm : x mod 128 = x - 128).
    { symmetry. apply Z.mod_unique with 1; lia. }
    rewrite Hxm.
    assert (Hsh : Z.shiftr (x - 128 + 128 * V) 7 = V).
    { rewrite Z.shiftr_div_pow2 by lia. change (2 ^ 7) with 128.
      symmetry. apply Z.div_unique with (x - 128); lia. }
    assert (Hld : Z.land (x - 128 + 128 * V) 127 = x - 128).
    { rewrite land127. symmetry. apply Z.mod_unique with V; lia. }
    destruct fuel as [|f]; [cbn [length] in Hlen; lia|]. cbn [wv].
    rewrite Hsh, Hld. destruct (Z.eqb_spec V 0) as [HV0|_]; [lia|].
    f_equal.
    + rewrite lor128_eq by lia. lia.
    + apply IH; [exact Hb|exact Hi'|exact Hl|right; exact Hlne|cbn [length] in Hlen; lia].
Qed.

(* the writer loop does not depend on the fuel once there is enough of it *)
Lemma wv_fuel_indep : forall f1 f2 v, 0 <= v -> v < 2 ^ (7 * Z.of_nat f1 + 7) -> (f1 <= f2)%nat ->
  wv f2 v = wv f1 v.
Proof.
  induction f1 as [|f1 IH]; intros f2 v Hv Hb Hf.
  - assert (v < 128) by (cbn in Hb; lia). rewrite !wv_small by lia. reflexivity.
  - destruct f2 as [|f2]; [lia|]. cbn [wv].
    destruct (Z.shiftr v 7 =? 0); [reflexivity|]. f_equal. apply IH; [apply Z.shiftr_nonneg; lia| |lia].
    rewrite Z.shiftr_div_pow2 by lia. apply Z.div_lt_upper_bound; [lia|].
    rewrite <- Z.pow_add_r by lia.
    replace (7 + (7 * Z.of_nat f1 + 7)) with (7 * Z.of_nat (S f1) + 7) by lia. exact Hb.
Qed.

Lemma last_app_single {A} (init : list A) (l d : A) : last (init ++ [l]) d = l.
Proof. apply last_last. Qed.

(* a well-shaped byte prefix without a redundant trailing zero group IS the output of the
   writer for the value it decodes to: minimal encodings are unique *)
Theorem uvarint_canonical_is_writer_output : forall pre,
  bytes_ok pre = true -> varint_shape pre -> uvarint_canonical pre ->
  uvarint_bytes (uv_val pre) = pre /\ write_varint (uv_val pre) = Ok pre.
Proof.
  intros pre Hb (init & l & -> & Hi & Hl) Hc.
  assert (Hc' : init = [] \/ l <> 0).
  { destruct Hc as [Hc|Hc].
    - left. rewrite app_length in Hc. cbn [length] in Hc. destruct init; [reflexivity|cbn [length] in Hc; lia].
    - right. rewrite last_app_single in Hc. exact Hc. }
  pose proof (uv_val_nonneg (init ++ [l])) as Hnn.
  assert (Hu : uvarint_bytes (uv_val (init ++ [l])) = init ++ [l]).
  { unfold uvarint_bytes. set (v := uv_val (init ++ [l])) in *.
    set (f1 := Z.to_nat (Z.log2 v / 7)).
    rewrite <- (wv_fuel_indep f1 (Nat.max f1 (length init)) v Hnn (fuel_bound v Hnn) ltac:(lia)).
    unfold v. apply wv_uv_val; try assumption. lia. }
  split; [exact Hu|]. unfold write_varint.
  destruct (Z.ltb_spec (uv_val (init ++ [l])) 0); [lia|]. f_equal. exact Hu.
Qed.
Print Assumptions uvarint_canonical_is_writer_output.

(* accepted + canonical = the writer's output followed by rest, for 5 and for 10 bytes *)
Corollary uvarint_n_reader_accepts_only_encodings_when_canonical : forall k bs z rest pre,
  bytes_ok bs = true -> run (read_uvarint_n k) bs = Ok (z, rest) ->
  bs = pre ++ rest -> uvarint_canonical pre ->
  write_varint z = Ok pre.
Proof.
  intros k bs z rest pre Hb H Hbs Hc. apply uvarint_n_reader_accepts in H.
  destruct H as (pre' & Hbs' & Hsh & _ & Hz & _).
  assert (pre' = pre) as -> by (eapply app_inv_tail; rewrite <- Hbs', <- Hbs; reflexivity).
  subst z. apply uvarint_canonical_is_writer_output; [|exact Hsh|exact Hc].
  subst bs. rewrite bytes_ok_app in Hb. apply andb_true_iff in Hb. tauto.
Qed.
Print Assumptions uvarint_n_reader_accepts_only_encodings_when_canonical.

(* the form "if the prefix is the minimal one": trivial direction, stated for completeness *)
Corollary uvarint_reader_accepts_only_encodings_when_minimal : forall bs z rest pre,
  run read_uvarint bs = Ok (z, rest) -> bs = pre ++ rest -> pre = uvarint_bytes z ->
  exists enc, write_varint z = Ok enc /\ bs = enc ++ rest.
Proof.
  intros bs z rest pre H Hbs Hp. apply read_uvarint_bound in H.
  exists pre. split; [|exact Hbs]. unfold write_varint.
  destruct (Z.ltb_spec z 0); [lia|]. rewrite Hp. reflexivity.
Qed.

(* ---- zig-zag ---- *)
Lemma zigzag32_decode u : 0 <= u < 2 ^ 32 -> zigzag32 (zigzag_decode u) = u.
Proof.
  intros Hu. rewrite zigzag_decode_spec by lia. unfold zigzag32.
  pose proof (Z.div_mod u 2 ltac:(lia)) as Hd. rewrite Zmod_even in Hd.
  assert (0 <= u / 2 < 2 ^ 31) by (split; [apply Z.div_pos; lia|apply Z.div_lt_upper_bound; lia]).
  destruct (Z.even u).
  - rewrite (zigzag_generic 31) by lia. destruct (Z.ltb_spec (u / 2) 0); lia.
  - rewrite (zigzag_generic 31) by lia. destruct (Z.ltb_spec (- (u / 2) - 1) 0); lia.
Qed.

Lemma zigzag64_decode u : 0 <= u < 2 ^ 64 -> zigzag64 (zigzag_decode u) = u.
Proof.
  intros Hu. rewrite zigzag_decode_spec by lia. unfold zigzag64.
  pose proof (Z.div_mod u 2 ltac:(lia)) as Hd. rewrite Zmod_even in Hd.
  assert (0 <= u / 2 < 2 ^ 63) by (split; [apply Z.div_pos; lia|apply Z.div_lt_upper_bound; lia]).
  destruct (Z.even u).
  - rewrite (zigzag_generic 63) by lia. destruct (Z.ltb_spec (u / 2) 0); lia.
  - rewrite (zigzag_generic 63) by lia. destruct (Z.ltb_spec (- (u / 2) - 1) 0); lia.
Qed.

Theorem svarint_reader_accepts : forall bs z rest,
  run read_svarint bs = Ok (z, rest) ->
  exists pre, bs = pre ++ rest /\ varint_shape pre /\ (length pre <= 5)%nat /\
              z = zigzag_decode (uv_val pre) /\ 0 <= uv_val pre < 2 ^ 35 /\
              (bytes_ok pre = true -> uvarint_canonical pre -> uv_val pre < 2 ^ 32 ->
               write_svarint z = Ok pre).
Proof.
  intros bs z rest H. unfold read_svarint in H. apply run_bind_inv in H.
  destruct H as (u & r & H1 & H2). apply run_ret_inv in H2. destruct H2 as [-> ->].
  apply uvarint_reader_accepts in H1. destruct H1 as (pre & Hbs & Hsh & Hlen & Hu & Hr & _).
  subst u. exists pre. repeat (split; [assumption || reflexivity|]).
  intros Hb Hc Hlt. unfold write_svarint. rewrite zigzag32_decode by lia.
  apply uvarint_canonical_is_writer_output; assumption.
Qed.
Print Assumptions svarint_reader_accepts.

Theorem svarlong_reader_accepts : forall bs z rest,
  run read_svarlong bs = Ok (z, rest) ->
  exists pre, bs = pre ++ rest /\ varint_shape pre /\ (length pre <= 10)%nat /\
              z = zigzag_decode (uv_val pre) /\ 0 <= uv_val pre < 2 ^ 70 /\
              (bytes_ok pre = true -> uvarint_canonical pre -> uv_val pre < 2 ^ 64 ->
               write_svarlong z = Ok pre).
Proof.
  intros bs z rest H. unfold read_svarlong in H. apply run_bind_inv in H.
  destruct H as (u & r & H1 & H2). apply run_ret_inv in H2. destruct H2 as [-> ->].
  apply uvarlong_reader_accepts in H1. destruct H1 as (pre & Hbs & Hsh & Hlen & Hu & Hr & _).
  subst u. exists pre. repeat (split; [assumption || reflexivity|]).
  intros Hb Hc Hlt. unfold write_svarlong. rewrite zigzag64_decode by lia.
  apply uvarint_canonical_is_writer_output; assumption.
Qed.
Print Assumptions svarlong_reader_accepts.

Example svarint_reader_accepts_nonvacuous :
  run read_svarint [215; 4; 9] = Ok (-300, [9]) /\ uv_val [215; 4] = 599 /\
  zigzag_decode 599 = -300 /\ write_svarint (-300) = Ok [215; 4].
Proof. vm_compute. repeat split; reflexivity. Qed.

(* the signed 5-byte reader is lenient in a second way: it accepts 35-bit values, which decode
   outside int32 and which the writer (zig-zag on 32 bits) does not produce *)
Example svarint_reader_accepts_only_encodings_refuted :
  run read_svarint [128; 128; 128; 128; 32] = Ok (4294967296, []) /\
  write_svarint 4294967296 = Ok [130; 128; 128; 128; 32].
Proof. vm_compute. split; reflexivity. Qed.

(* ------------------------------------------------------------------------------------------ *)
(* 2b. the compact (unsigned varint of length+1) string and bytes readers *)
Definition compact_codec (p : pcodec) : bool :=
  match p with PStr true _ | PBytes true _ => true | _ => false end.
Definition pcodec_nullable (p : pcodec) : bool :=
  match p with PStr _ n | PBytes _ n | PDt n => n | _ => false end.
Definition pcodec_is_str (p : pcodec) : bool :=
  match p with PStr _ _ => true | _ => false end.
Definition blob_value (p : pcodec) (payload : list Z) : value :=
  if pcodec_is_str p then VStr payload else VBytes payload.

Lemma compact_gen_accepts n k bs v rest :
  run (read_compact_gen n k) bs = Ok (v, rest) ->
  exists pre r kk,
    bs = pre ++ r /\ varint_shape pre /\ (length pre <= 5)%nat /\ kk = uv_val pre /\
    0 <= kk < 2 ^ 35 /\ run read_uvarint (pre ++ r) = Ok (kk, r) /\
    ((kk = 0 /\ n = true /\ v = VNull /\ r = rest) \/
     (exists payload r', r = payload ++ r' /\ kk = zlen payload + 1 /\
                         run (k payload) r' = Ok (v, rest))).
Proof.
  intros H. unfold read_compact_gen, read_compact_len in H.
  apply run_bind_inv in H. destruct H as (len & r & H1 & H2).
  apply run_bind_inv in H1. destruct H1 as (kk & r1 & H0 & H1).
  apply run_ret_inv in H1. destruct H1 as [-> ->].
  apply uvarint_reader_accepts in H0.
  destruct H0 as (pre & Hbs & Hsh & Hlen & Hk & Hrange & Htl).
  exists pre, r1, kk. split; [exact Hbs|]. split; [exact Hsh|]. split; [exact Hlen|].
  split; [exact Hk|]. split; [exact Hrange|]. split; [apply Htl|].
  destruct (Z.eqb_spec (kk - 1) (-1)) as [E|E].
  - left. unfold null_or in H2. destruct n; cbn [run] in H2; [|discriminate H2].
    inversion H2; subst. repeat split; lia.
  - right. apply run_read_split in H2. destruct H2 as (c & r' & Hr & Hc & H2).
    exists c, r'. split; [exact Hr|]. split; [lia|exact H2].
Qed.

Theorem compact_reader_accepts : forall ec p bs v rest,
  compact_codec p = true -> run (dec_prim ec p) bs = Ok (v, rest) ->
  exists pre payload k,
    bs = pre ++ payload ++ rest /\
    varint_shape pre /\ (length pre <= 5)%nat /\ k = uv_val pre /\ 0 <= k < 2 ^ 35 /\
    run read_uvarint (pre ++ payload ++ rest) = Ok (k, payload ++ rest) /\
    ((k = 0 /\ v = VNull /\ payload = [] /\ pcodec_nullable p = true) \/
     (k = zlen payload + 1 /\ v = blob_value p payload /\
      (pcodec_is_str p = true -> utf8_valid payload = true))).
Proof.
  intros ec p bs v rest Hc H.
  destruct p as [w s| | | |c n|c n| | | |n]; cbn [compact_codec] in Hc; try discriminate Hc;
    (destruct c; [|discriminate Hc]).
  - (* PStr true n *)
    rewrite dec_str_compact in H. apply compact_gen_accepts in H.
    destruct H as (pre & r & k & Hbs & Hsh & Hlen & Hk & Hrange & Hrun & Hcase).
    destruct Hcase as [(Hk0 & Hn & Hv & Hr)|(payload & r' & Hr & Hkl & Hd)].
    + subst r. exists pre, [], k. cbn [app]. repeat (split; [assumption|]).
      left. repeat split; assumption.
    + apply decode_str_inv in Hd. destruct Hd as (Hv & Hu & Hrest). subst r' r.
      exists pre, payload, k. repeat (split; [assumption|]).
      right. split; [exact Hkl|]. split; [exact Hv|]. intros _. exact Hu.
  - (* PBytes true n *)
    rewrite dec_bytes_compact in H. apply compact_gen_accepts in H.
    destruct H as (pre & r & k & Hbs & Hsh & Hlen & Hk & Hrange & Hrun & Hcase).
    destruct Hcase as [(Hk0 & Hn & Hv & Hr)|(payload & r' & Hr & Hkl & Hd)].
    + subst r. exists pre, [], k. cbn [app]. repeat (split; [assumption|]).
      left. repeat split; assumption.
    + apply k_bytes_inv in Hd. destruct Hd as (Hv & Hrest). subst r' r.
      exists pre, payload, k. repeat (split; [assumption|]).
      right. split; [exact Hkl|]. split; [exact Hv|]. intros Hf. discriminate Hf.
Qed.
Print Assumptions compact_reader_accepts.

Example compact_reader_accepts_nonvacuous :
  run (dec_prim [] (PStr true true)) [3; 104; 105; 9] = Ok (VStr [104; 105], [9]) /\
  run read_uvarint ([3] ++ [104; 105] ++ [9]) = Ok (3, [104; 105] ++ [9]) /\
  enc_prim (PStr true true) (VStr [104; 105]) = Ok [3; 104; 105] /\
  run (dec_prim [] (PBytes true true)) [0; 9] = Ok (VNull, [9]) /\
  enc_prim (PBytes true true) VNull = Ok [0] /\
  (* accepted, not the writer's output: two-byte prefix for 3 *)
  run (dec_prim [] (PStr true true)) [131; 0; 104; 105; 9] = Ok (VStr [104; 105], [9]).
Proof. vm_compute. repeat split; reflexivity. Qed.

(* what the writer does with the values the compact readers return *)
Lemma enc_compact_blob p payload : compact_codec p = true ->
  0 <= zlen payload + 1 < 2 ^ 35 ->
  enc_prim p (blob_value p payload) = Ok (uvarint_bytes (zlen payload + 1) ++ payload).
Proof.
  intros Hc Hk.
  assert (Hw : write_compact_blob payload = Ok (uvarint_bytes (zlen payload + 1) ++ payload)).
  { unfold write_compact_blob, write_len_compact, uvarint_hi.
    destruct (Z.leb_spec 0 (zlen payload + 1)); [|lia].
    destruct (Z.leb_spec (zlen payload + 1) (2 ^ 35 - 1)); [|lia]. reflexivity. }
  destruct p as [w s| | | |c n|c n| | | |n]; cbn [compact_codec] in Hc; try discriminate Hc;
    (destruct c; [|discriminate Hc]); exact Hw.
Qed.

Lemma enc_compact_null p : compact_codec p = true -> pcodec_nullable p = true ->
  enc_prim p VNull = Ok [0].
Proof.
  intros Hc Hn.
  destruct p as [w s| | | |c n|c n| | | |n]; cbn [compact_codec] in Hc; try discriminate Hc;
    (destruct c; [|discriminate Hc]); cbn [pcodec_nullable] in Hn; subst n; reflexivity.
Qed.

(* if the length prefix the reader consumed is the writer's (minimal) encoding of the number it
   decodes to, then the whole accepted input is the writer's output *)
Theorem compact_reader_accepts_only_encodings_when_minimal : forall ec p bs v rest pre tl k,
  compact_codec p = true -> run (dec_prim ec p) bs = Ok (v, rest) ->
  bs = pre ++ tl -> run read_uvarint bs = Ok (k, tl) -> pre = uvarint_bytes k ->
  exists enc, enc_prim p v = Ok enc /\ bs = enc ++ rest.
Proof.
  intros ec p bs v rest pre tl k Hc H Hbs Hrun Hmin.
  apply compact_reader_accepts in H; [|exact Hc].
  destruct H as (pre' & payload & k' & Hbs' & _ & _ & _ & Hrange & Hrun' & Hcase).
  rewrite <- Hbs' in Hrun'. rewrite Hrun in Hrun'. inversion Hrun'; subst k' tl.
  assert (pre' = pre) as ->.
  { eapply app_inv_tail. rewrite <- Hbs', <- Hbs. reflexivity. }
  destruct Hcase as [(Hk0 & Hv & Hp & Hn)|(Hkl & Hv & _)].
  - subst k v payload. exists [0]. split; [apply enc_compact_null; assumption|].
    rewrite Hbs', Hmin. reflexivity.
  - subst v. exists (uvarint_bytes (zlen payload + 1) ++ payload).
    split; [apply enc_compact_blob; [exact Hc|lia]|].
    rewrite Hbs', Hmin, Hkl, app_assoc. reflexivity.
Qed.
Print Assumptions compact_reader_accepts_only_encodings_when_minimal.

(* the same with minimality stated on the bytes: no redundant trailing zero group *)
Theorem compact_reader_accepts_only_encodings_when_canonical : forall ec p bs v rest pre tl k,
  compact_codec p = true -> bytes_ok bs = true -> run (dec_prim ec p) bs = Ok (v, rest) ->
  bs = pre ++ tl -> run read_uvarint bs = Ok (k, tl) -> uvarint_canonical pre ->
  exists enc, enc_prim p v = Ok enc /\ bs = enc ++ rest.
Proof.
  intros ec p bs v rest pre tl k Hc Hb H Hbs Hrun Hcan.
  eapply compact_reader_accepts_only_encodings_when_minimal; try eassumption.
  pose proof (uvarint_n_reader_accepts_only_encodings_when_canonical 5 bs k tl pre Hb Hrun Hbs Hcan)
    as Hw.
  unfold write_varint in Hw. destruct (k <? 0); [discriminate Hw|].
  unfold uvarint_bytes. congruence.
Qed.
Print Assumptions compact_reader_accepts_only_encodings_when_canonical.

Example compact_reader_accepts_only_encodings_when_minimal_nonvacuous :
  run (dec_prim [] (PStr true false)) ([3] ++ [104; 105; 9]) = Ok (VStr [104; 105], [9]) /\
  run read_uvarint ([3] ++ [104; 105; 9]) = Ok (3, [104; 105; 9]) /\
  [3] = uvarint_bytes 3 /\ uvarint_canonical [3] /\
  enc_prim (PStr true false) (VStr [104; 105]) = Ok [3; 104; 105].
Proof. repeat split; try (vm_compute; reflexivity). left. reflexivity. Qed.

(* ------------------------------------------------------------------------------------------ *)
(* both directions together: a strict reader accepts EXACTLY the encodings of well-typed values *)
Lemma psub_refl_acc p : psub p p = true.
Proof.
  unfold psub. replace (pcodec_eqb p p) with true; [reflexivity|].
  symmetry. destruct p as [w s| | | |c n|c n| | | |n]; cbn [pcodec_eqb];
    rewrite ?Nat.eqb_refl, ?Bool.eqb_reflx; reflexivity.
Qed.

Lemma strict_codec_ok p : strict_codec p = true -> pcodec_ok p = true.
Proof. destruct p as [w s| | | |c n|c n| | | |n]; cbn; intros H; congruence. Qed.

Corollary prim_reader_accepts_exactly : forall ec p bs v rest,
  strict_codec p = true -> bytes_ok bs = true ->
  (run (dec_prim ec p) bs = Ok (v, rest) <->
   typed_prim ec p v = true /\ exists enc, enc_prim p v = Ok enc /\ bs = enc ++ rest).
Proof.
  intros ec p bs v rest Hs Hb. split.
  - intros H. split.
    + eapply prim_dec_typed; [apply strict_codec_ok; exact Hs|exact Hb|exact H].
    + eapply prim_reader_accepts_only_encodings; eassumption.
  - intros (Ht & enc & He & ->). eapply prim_roundtrip; [apply psub_refl_acc|exact Ht|exact He].
Qed.
Print Assumptions prim_reader_accepts_exactly.
