(* Well-typed canonical values of a codec / class, and the well-formedness of an environment
   of plans (the conditions under which the generic theorems hold).  Boolean, definitions only. *)
From Coq Require Import ZArith List Bool String.
From KioV Require Import Base.Res Base.Prog Prim.Bytes Codec.Value Codec.PrimCodec Schema.Introspect.
Import ListNotations.
Open Scope Z_scope.

Section Typed.
  Variable ec : list Z.
  Variable typed_class : nat -> value -> bool.

  (* typed with respect to the WRITER codec *)
  Fixpoint typed_codec (c : codec) (v : value) : bool :=
    match c with
    | CPrim p => typed_prim ec p v
    | CEnt i nullable => match v with VNull => nullable | _ => typed_class i v end
    | CArr compact item =>
        match v with
        | VNull => true
        | VArr l => forallb (typed_codec item) l &&
                    (if compact then zlen l + 1 <=? uvarint_hi else zlen l <=? 2147483647)
        | _ => false
        end
    end.

  (* a tagged field holds either its default (then it is not written) or a typed value *)
  Fixpoint typed_fields (fs : list fplan2) (vs : list value) : bool :=
    match fs, vs with
    | [], [] => true
    | f :: ftl, v :: vtl =>
        (match f2_tag f with
         | Some _ => val_eqb v (f2_default f) || typed_codec (f2_w f) v
         | None => typed_codec (f2_w f) v
         end) && typed_fields ftl vtl
    | _, _ => false
    end.

  Definition typed_entity (c : cplan2) (v : value) : bool :=
    match v with VEnt vs => typed_fields (c2_fields c) vs | _ => false end.
End Typed.

Fixpoint typed_class (E : list cplan2) (ec : list Z) (rank : nat) (i : nat) (v : value) : bool :=
  match rank with
  | O => false
  | S r => match nth_error E i with
           | None => false
           | Some c => typed_entity ec (typed_class E ec r) c v
           end
  end.
Definition typed (E : list cplan2) (ec : list Z) (i : nat) (v : value) : bool :=
  typed_class E ec (S i) i v.

(* ---- well-formed environments ---- *)
Fixpoint codec_sub (w r : codec) : bool :=
  match w, r with
  | CPrim p, CPrim q => psub p q
  | CEnt i n, CEnt j m => Nat.eqb i j && Bool.eqb n m
  | CArr c x, CArr d y => Bool.eqb c d && codec_sub x y
  | _, _ => false
  end.

Fixpoint refs_lt (i : nat) (c : codec) : bool :=
  match c with
  | CPrim _ => true
  | CEnt j _ => Nat.ltb j i
  | CArr _ item => refs_lt i item
  end.

(* a conservative, non-recursive reason why every encoding of the class has at least one byte *)
Definition field_nonempty (f : fplan2) : bool :=
  match f2_tag f with
  | Some _ => false
  | None => match f2_w f with CPrim _ | CArr _ _ => true | CEnt _ nullable => nullable end
  end.
Definition class_nonempty (c : cplan2) : bool := c2_flexible c || existsb field_nonempty (c2_fields c).

(* every array item codec produces at least one byte *)
Fixpoint items_nonempty (E : list cplan2) (c : codec) : bool :=
  match c with
  | CPrim _ => true
  | CEnt _ _ => true
  | CArr _ item =>
      items_nonempty E item &&
      match item with
      | CPrim _ | CArr _ _ => true
      | CEnt j nullable => nullable || match nth_error E j with Some cj => class_nonempty cj | None => false end
      end
  end.

Fixpoint codec_ok (c : codec) : bool :=
  match c with CPrim p => pcodec_ok p | CEnt _ _ => true | CArr _ item => codec_ok item end.

Definition tags_of (fs : list fplan2) : list Z :=
  flat_map (fun f => match f2_tag f with Some t => [t] | None => [] end) fs.

Fixpoint nodup_z (l : list Z) : bool :=
  match l with [] => true | x :: tl => negb (existsb (Z.eqb x) tl) && nodup_z tl end.

(* reader and writer codec of an array field agree on the items: a tagged field is written with
   the non-nullable writer, which may only differ from the reader at the top level (a null ITEM
   read by a nullable item reader could not be written back) *)
Definition arr_items_eq (w r : codec) : bool :=
  match w, r with CArr _ x, CArr _ y => codec_eqb x y | _, _ => true end.

Definition wf_field0 (E : list cplan2) (i : nat) (flexible : bool) (f : fplan2) : bool :=
  codec_sub (f2_w f) (f2_r f) && refs_lt i (f2_w f) && items_nonempty E (f2_w f)
  && codec_ok (f2_w f) && codec_ok (f2_r f)
  && match f2_tag f with
     | None => codec_eqb (f2_w f) (f2_r f)
     | Some t => flexible && (0 <=? t) && (t <? 2 ^ 31)
                 (* where reader and writer codec differ the reader may produce null: it must
                    then be the default, which the writer elides *)
                 && (codec_eqb (f2_w f) (f2_r f) || val_eqb (f2_default f) VNull)
     end.

(* a tagged float64 field is outside the model: the writer elides a tagged field whose value ==
   its default, and Python's == identifies -0.0 with 0.0 while values here are bit patterns *)
Definition no_tagged_float (f : fplan2) : bool :=
  match f2_tag f, f2_w f with
  | Some _, CPrim PF64 | Some _, CArr _ (CPrim PF64) => false
  | _, _ => true
  end.

Definition wf_field (E : list cplan2) (i : nat) (flexible : bool) (f : fplan2) : bool :=
  wf_field0 E i flexible f && (arr_items_eq (f2_w f) (f2_r f) && no_tagged_float f).

Definition wf_class (E : list cplan2) (i : nat) (c : cplan2) : bool :=
  forallb (wf_field E i (c2_flexible c)) (c2_fields c) && nodup_z (tags_of (c2_fields c)).

Fixpoint wf_from (E : list cplan2) (i : nat) (l : list cplan2) : bool :=
  match l with [] => true | c :: tl => wf_class E i c && wf_from E (S i) tl end.
Definition wf_env (E : list cplan2) : bool := wf_from E 0 E.
