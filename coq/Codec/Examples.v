(* A small concrete environment and value used for the non-vacuity examples of the property
   theorems: a flexible class with a nested array of entities, a nullable string and two tagged
   fields (one non-default, one default). *)
From Coq Require Import ZArith List Bool String.
From KioV Require Import Base.Res Codec.Value Codec.PrimCodec Codec.Reader Codec.Writer Schema.Introspect Codec.Typed.
Import ListNotations.
Open Scope Z_scope.

Definition fld (name : string) (c : codec) : fplan2 :=
  {| f2_name := name; f2_r := c; f2_w := c; f2_tag := None; f2_default := VNull |}.
Definition tfld (name : string) (w r : codec) (t : Z) (d : value) : fplan2 :=
  {| f2_name := name; f2_r := r; f2_w := w; f2_tag := Some t; f2_default := d |}.

Definition ex_env : list cplan2 :=
  [ {| c2_name := "Inner"; c2_flexible := true;
       c2_fields := [fld "x" (CPrim (PInt 4 true)); fld "name" (CPrim (PStr true true))] |};
    {| c2_name := "Outer"; c2_flexible := true;
       c2_fields := [ tfld "cluster" (CPrim (PStr true false)) (CPrim (PStr true true)) 1 VNull;
                      fld "id" (CPrim (PInt 8 true));
                      fld "items" (CArr true (CEnt 0 false));
                      tfld "epoch" (CPrim (PInt 4 true)) (CPrim (PInt 4 true)) 0 (VInt (-1));
                      fld "when" (CPrim (PDt true)) ] |} ].
Definition ex_ec : list Z := [0; 1; -1].
Definition ex_val : value :=
  VEnt [ VStr [107; 105; 111];
         VInt (-2);
         VArr [VEnt [VInt 1; VNull]; VEnt [VInt 300; VStr [104; 105]]];
         VInt (-1);
         VTime 1700000000123000 ].

Example ex_wf : wf_env ex_env = true. Proof. vm_compute. reflexivity. Qed.
Example ex_typed : typed ex_env ex_ec 1 ex_val = true. Proof. vm_compute. reflexivity. Qed.
Definition ex_bytes : list Z :=
  Eval vm_compute in match encode (map writer_plan ex_env) 1 ex_val with Ok b => b | Err _ => [] end.
Example ex_encodes_bytes : encode (map writer_plan ex_env) 1 ex_val = Ok ex_bytes.
Proof. vm_compute. reflexivity. Qed.
Example ex_encodes : exists bs, encode (map writer_plan ex_env) 1 ex_val = Ok bs /\ List.length bs = 38%nat.
Proof. eexists. split; vm_compute; reflexivity. Qed.
