(* C01: encode-then-decode is the identity, with exact consumption, for every well-formed
   environment of plans, every class, every typed value and every trailing input.
   Also: the encoder's output is a byte string; the encoder is total on typed values whose
   tagged payloads fit the unsigned-varint size prefix. *)
From Coq Require Import ZArith List Bool Lia Permutation.
From KioV Require Import Base.Res Base.Prog Base.ProgProofs
  Prim.Bytes Prim.Varint Prim.BytesProofs Prim.VarintProofs
  Codec.Value Codec.PrimCodec Codec.PrimCodecProofs Codec.Reader Codec.Writer
  Schema.Introspect Codec.Typed.
Import ListNotations.
Open Scope Z_scope.

(* ------------------------------------------------------------------------------------------ *)
(* structural equality of values *)
Section ValueInd.
  Variable P : value -> Prop.
  Hypothesis HNull : P VNull.
  Hypothesis HBool : forall b, P (VBool b).
  Hypothesis HInt : forall z, P (VInt z).
  Hypothesis HF64 : forall z, P (VF64 z).
  Hypothesis HStr : forall b, P (VStr b).
  Hypothesis HBytes : forall b, P (VBytes b).
  Hypothesis HUuid : forall b, P (VUuid b).
  Hypothesis HDur : forall z, P (VDur z).
  Hypothesis HTime : forall z, P (VTime z).
  Hypothesis HArr : forall l, Forall P l -> P (VArr l).
  Hypothesis HEnt : forall l, Forall P l -> P (VEnt l).

  Fixpoint value_ind' (v : value) : P v :=
    let go := fix go (l : list value) : Forall P l :=
      match l with
      | [] => Forall_nil P
      | x :: tl => Forall_cons x (value_ind' x) (go tl)
      end in
    match v with
    | VNull => HNull
    | VBool b => HBool b
    | VInt z => HInt z
    | VF64 z => HF64 z
    | VStr b => HStr b
    | VBytes b => HBytes b
    | VUuid b => HUuid b
    | VDur z => HDur z
    | VTime z => HTime z
    | VArr l => HArr l (go l)
    | VEnt l => HEnt l (go l)
    end.
End ValueInd.

Lemma zlist_eqb_eq : forall a b, zlist_eqb a b = true -> a = b.
Proof.
  induction a as [|x a IH]; destruct b as [|y b]; cbn [zlist_eqb]; intros H;
    try discriminate; [reflexivity|].
  apply andb_true_iff in H. destruct H as [H1 H2]. apply Z.eqb_eq in H1. f_equal; auto.
Qed.

Lemma zlist_eqb_refl : forall a, zlist_eqb a a = true.
Proof. induction a as [|x a IH]; cbn [zlist_eqb]; [reflexivity|]. rewrite Z.eqb_refl. exact IH. Qed.

Definition vlist_eqb : list value -> list value -> bool :=
  fix go (l1 l2 : list value) : bool :=
    match l1, l2 with
    | [], [] => true
    | p :: l1', q :: l2' => val_eqb p q && go l1' l2'
    | _, _ => false
    end.

Lemma vlist_eqb_eq l : Forall (fun a => forall b, val_eqb a b = true -> a = b) l ->
  forall l2, vlist_eqb l l2 = true -> l = l2.
Proof.
  induction 1 as [|x l Hx Hl IH]; destruct l2 as [|y l2]; cbn [vlist_eqb]; intros H;
    try discriminate; [reflexivity|].
  apply andb_true_iff in H. destruct H as [H1 H2]. f_equal; auto.
Qed.

Lemma vlist_eqb_refl l : Forall (fun a => val_eqb a a = true) l -> vlist_eqb l l = true.
Proof.
  induction 1 as [|x l Hx Hl IH]; cbn [vlist_eqb]; [reflexivity|]. rewrite Hx. exact IH.
Qed.

Theorem val_eqb_eq : forall a b, val_eqb a b = true -> a = b.
Proof.
  induction a using value_ind'; intros y; destruct y; cbn [val_eqb]; intros Hq;
    try discriminate; try reflexivity.
  - f_equal. apply eqb_prop. exact Hq.
  - f_equal. apply Z.eqb_eq. exact Hq.
  - f_equal. apply Z.eqb_eq. exact Hq.
  - f_equal. apply zlist_eqb_eq. exact Hq.
  - f_equal. apply zlist_eqb_eq. exact Hq.
  - f_equal. apply zlist_eqb_eq. exact Hq.
  - f_equal. apply Z.eqb_eq. exact Hq.
  - f_equal. apply Z.eqb_eq. exact Hq.
  - f_equal. apply (vlist_eqb_eq l H). exact Hq.
  - f_equal. apply (vlist_eqb_eq l H). exact Hq.
Qed.

Theorem val_eqb_refl : forall a, val_eqb a a = true.
Proof.
  induction a using value_ind'; cbn [val_eqb]; try reflexivity;
    try apply Z.eqb_refl; try apply zlist_eqb_refl.
  - apply eqb_reflx.
  - apply (vlist_eqb_refl l H).
  - apply (vlist_eqb_refl l H).
Qed.

(* ------------------------------------------------------------------------------------------ *)
(* generic helpers: results, concatenated encodings, the counted loop *)
Lemma rbind_ok_inv {A B} (r : res A) (f : A -> res B) y :
  rbind r f = Ok y -> exists a, r = Ok a /\ f a = Ok y.
Proof. destruct r as [a|e]; cbn [rbind]; intros H; [eauto|discriminate]. Qed.

Ltac rb H a Ha :=
  apply rbind_ok_inv in H; destruct H as [a [Ha H]].
Ltac ok_inj H := injection H as H; subst.

Lemma length_app_tl (a b tl : list Z) (n : nat) :
  (length ((a ++ b) ++ tl) < n)%nat -> (length (b ++ tl) < n)%nat.
Proof. rewrite !app_length. lia. Qed.

Lemma rconcat_cons_inv x l bs : rconcat (x :: l) = Ok bs ->
  exists a b, x = Ok a /\ rconcat l = Ok b /\ bs = a ++ b.
Proof.
  cbn [rconcat]. intros H. rb H a Ha. rb H b Hb. exists a, b. repeat split; congruence.
Qed.

(* every item has at least one byte: the encoding has at least as many bytes as items *)
Lemma rconcat_length_ge {A} (enc : A -> res (list Z)) : forall xs bs,
  (forall x b, In x xs -> enc x = Ok b -> (1 <= length b)%nat) ->
  rconcat (map enc xs) = Ok bs -> (length xs <= length bs)%nat.
Proof.
  induction xs as [|x xs IH]; intros bs Hne H; cbn [map] in H.
  - cbn. lia.
  - apply rconcat_cons_inv in H. destruct H as [a [b [Ha [Hb ->]]]].
    rewrite app_length. cbn [length].
    assert (1 <= length a)%nat by (eapply Hne; [left; reflexivity|exact Ha]).
    assert (length xs <= length b)%nat by (apply IH; [intros; eapply Hne; [right|]; eauto|exact Hb]).
    lia.
Qed.

Lemma rconcat_bytes_ok {A} (enc : A -> res (list Z)) : forall xs bs,
  (forall x b, In x xs -> enc x = Ok b -> bytes_ok b = true) ->
  rconcat (map enc xs) = Ok bs -> bytes_ok bs = true.
Proof.
  induction xs as [|x xs IH]; intros bs Hne H; cbn [map] in H.
  - cbn in H. ok_inj H. reflexivity.
  - apply rconcat_cons_inv in H. destruct H as [a [b [Ha [Hb ->]]]].
    rewrite bytes_ok_app. apply andb_true_iff. split.
    + eapply Hne; [left; reflexivity|exact Ha].
    + apply IH; [intros; eapply Hne; [right|]; eauto|exact Hb].
Qed.

Lemma rconcat_total {A} (enc : A -> res (list Z)) : forall xs,
  (forall x, In x xs -> exists b, enc x = Ok b) -> exists bs, rconcat (map enc xs) = Ok bs.
Proof.
  induction xs as [|x xs IH]; intros H; cbn [map rconcat]; [eauto|].
  destruct (H x (or_introl eq_refl)) as [a ->].
  destruct IH as [b ->]; [intros; apply H; right; assumption|]. cbn [rbind]. eauto.
Qed.

Lemma repeat_prog_zero {A} f (item : prog A) : repeat_prog f 0 item = Ret [].
Proof. destruct f; reflexivity. Qed.

Lemma repeat_prog_succ {A} f n (item : prog A) : 0 < n ->
  repeat_prog (S f) n item = (x <- item ;; xs <- repeat_prog f (n - 1) item ;; Ret (x :: xs)).
Proof.
  intros H. cbn [repeat_prog]. destruct (n <=? 0) eqn:E; [apply Z.leb_le in E; lia|reflexivity].
Qed.

Lemma zlen_cons {A} (x : A) l : zlen (x :: l) = zlen l + 1.
Proof. unfold zlen. cbn [length]. lia. Qed.

(* the counted loop against the concatenation of the items' encodings *)
Lemma run_repeat_concat {A B} (item : prog B) (enc : A -> res (list Z)) (g : A -> B) (bound : nat) :
  forall xs bs tl f,
  (forall x b tl', In x xs -> enc x = Ok b -> (length (b ++ tl') < bound)%nat ->
                   run item (b ++ tl') = Ok (g x, tl')) ->
  rconcat (map enc xs) = Ok bs ->
  (length (bs ++ tl) < bound)%nat -> (length xs <= f)%nat ->
  run (repeat_prog f (zlen xs) item) (bs ++ tl) = Ok (map g xs, tl).
Proof.
  induction xs as [|x xs IH]; intros bs tl f Hitem H Hb Hf; cbn [map] in H.
  - cbn in H. ok_inj H. change (zlen []) with 0. rewrite repeat_prog_zero. reflexivity.
  - apply rconcat_cons_inv in H. destruct H as [a [b [Ha [Hb' ->]]]].
    destruct f as [|f]; [cbn in Hf; lia|].
    rewrite repeat_prog_succ by (rewrite zlen_cons; unfold zlen; lia).
    rewrite <- app_assoc, run_bind.
    rewrite (Hitem x a (b ++ tl)); [|left; reflexivity|exact Ha|rewrite app_assoc; exact Hb].
    rewrite run_bind.
    replace (zlen (x :: xs) - 1) with (zlen xs) by (rewrite zlen_cons; lia).
    rewrite (IH b tl f); [reflexivity| |exact Hb'| |cbn in Hf; lia].
    + intros y c tl' Hy. apply Hitem. right. exact Hy.
    + eapply length_app_tl. exact Hb.
Qed.

(* the nullable-entity marker and the length prefixes *)
Lemma read_marker_null tl : run (read_int 1 true) (255 :: tl) = Ok (-1, tl).
Proof. apply (read_write_int_any 1 true (-1) [255] tl). reflexivity. Qed.

Lemma read_marker_one tl : run (read_int 1 true) (1 :: tl) = Ok (1, tl).
Proof. apply (read_write_int_any 1 true 1 [1] tl). reflexivity. Qed.

Lemma write_len_compact_inv n p : write_len_compact n = Ok p ->
  0 <= n < 2 ^ 35 /\ p = uvarint_bytes n.
Proof.
  unfold write_len_compact, uvarint_hi. destruct ((0 <=? n) && (n <=? 2 ^ 35 - 1)) eqn:E;
    [|discriminate]. intros H. b2p. split; [lia|congruence].
Qed.

Lemma write_len_compact_ok n : 0 <= n <= uvarint_hi -> write_len_compact n = Ok (uvarint_bytes n).
Proof.
  intros H. unfold write_len_compact.
  replace ((0 <=? n) && (n <=? uvarint_hi)) with true; [reflexivity|].
  symmetry. apply andb_true_iff. split; apply Z.leb_le; lia.
Qed.

Lemma read_uvarint_len n p tl : write_len_compact n = Ok p ->
  run read_uvarint (p ++ tl) = Ok (n, tl).
Proof. intros H. apply write_len_compact_inv in H. destruct H as [H ->]. apply read_write_uvarint. exact H. Qed.

Lemma read_compact_len_rt n p tl : write_len_compact (n + 1) = Ok p ->
  run read_compact_len (p ++ tl) = Ok (n, tl).
Proof.
  intros H. unfold read_compact_len. rewrite run_bind, (read_uvarint_len _ _ _ H). cbn [run].
  do 2 f_equal. lia.
Qed.

Lemma read_compact_len_null tl : run read_compact_len (0 :: tl) = Ok (-1, tl).
Proof. unfold read_compact_len. rewrite run_bind, read_uvarint_null. reflexivity. Qed.

Lemma write_len_compact_nonempty n p : write_len_compact n = Ok p -> (1 <= length p)%nat.
Proof. intros H. apply write_len_compact_inv in H. destruct H as [_ ->]. apply uvarint_bytes_nonempty. Qed.

Lemma write_len_compact_bytes_ok n p : write_len_compact n = Ok p -> bytes_ok p = true.
Proof. intros H. apply write_len_compact_inv in H. destruct H as [_ ->]. apply uvarint_bytes_ok. Qed.

(* ------------------------------------------------------------------------------------------ *)
(* the codec level, relative to arbitrary class-level functions *)
Definition top_nonempty (w : codec) : bool :=
  match w with CPrim _ | CArr _ _ => true | CEnt _ nullable => nullable end.
Definition item_nonempty (E : list cplan2) (w : codec) : bool :=
  match w with
  | CPrim _ | CArr _ _ => true
  | CEnt j nullable =>
      nullable || match nth_error E j with Some cj => class_nonempty cj | None => false end
  end.

Lemma codec_sub_refl : forall w, codec_sub w w = true.
Proof.
  induction w as [p|j n|c w IH]; cbn [codec_sub].
  - unfold psub. destruct p; cbn [pcodec_eqb]; rewrite ?Nat.eqb_refl, ?eqb_reflx; reflexivity.
  - rewrite Nat.eqb_refl, eqb_reflx. reflexivity.
  - rewrite eqb_reflx, IH. reflexivity.
Qed.

(* the two views of a field, as in reader_plan / writer_plan *)
Definition wr (f : fplan2) : fplan :=
  {| fp_name := f2_name f; fp_codec := f2_w f; fp_tag := f2_tag f; fp_default := f2_default f |}.
Definition rd (f : fplan2) : fplan :=
  {| fp_name := f2_name f; fp_codec := f2_r f; fp_tag := f2_tag f; fp_default := f2_default f |}.

Lemma writer_fields c : cp_fields (writer_plan c) = map wr (c2_fields c).
Proof. reflexivity. Qed.
Lemma reader_fields c : cp_fields (reader_plan c) = map rd (c2_fields c).
Proof. reflexivity. Qed.

Definition has_tag2 (fs : list fplan2) : bool :=
  existsb (fun f => match f2_tag f with Some _ => true | None => false end) fs.
Lemma has_tagged_wr fs : has_tagged (map wr fs) = has_tag2 fs.
Proof. induction fs as [|f fs IH]; [reflexivity|]. unfold has_tagged, has_tag2 in *. cbn [map existsb]. rewrite IH. reflexivity. Qed.
Lemma has_tagged_rd fs : has_tagged (map rd fs) = has_tag2 fs.
Proof. induction fs as [|f fs IH]; [reflexivity|]. unfold has_tagged, has_tag2 in *. cbn [map existsb]. rewrite IH. reflexivity. Qed.

Lemma has_tag2_false fs : has_tag2 fs = false -> forall f, In f fs -> f2_tag f = None.
Proof.
  induction fs as [|g fs IH]; intros H f Hf; [destruct Hf|].
  unfold has_tag2 in H. cbn [existsb] in H. apply orb_false_iff in H. destruct H as [H1 H2].
  destruct Hf as [->|Hf]; [destruct (f2_tag f); [discriminate|reflexivity]|]. apply IH; assumption.
Qed.

(* the values of the untagged fields, in order: what dec_regular returns *)
Fixpoint regular_vals (fs : list fplan2) (vs : list value) : list value :=
  match fs, vs with
  | f :: ftl, v :: vtl =>
      match f2_tag f with Some _ => regular_vals ftl vtl | None => v :: regular_vals ftl vtl end
  | _, _ => []
  end.

Definition ent_proj (e : Z * (codec * value)) : Z * value := (fst e, snd (snd e)).

Lemma wf_field_inv E i fl f : wf_field E i fl f = true ->
  codec_sub (f2_w f) (f2_r f) = true /\ refs_lt i (f2_w f) = true /\
  items_nonempty E (f2_w f) = true /\ codec_ok (f2_w f) = true /\
  (forall t, f2_tag f = Some t -> fl = true /\ 0 <= t < 2 ^ 31).
Proof.
  unfold wf_field. intros H. apply andb_true_iff in H. destruct H as [H _]. unfold wf_field0 in H.
  repeat (apply andb_true_iff in H; let H' := fresh "H" in destruct H as [H H']).
  repeat split; try assumption; destruct (f2_tag f) as [t'|]; try discriminate;
    injection H5 as ->;
    repeat (apply andb_true_iff in H0; let H' := fresh "H" in destruct H0 as [H0 H']).
  - exact H0.
  - apply Z.leb_le. assumption.
  - apply Z.ltb_lt. assumption.
Qed.

Lemma typed_fields_length ec tyc : forall fs vs,
  typed_fields ec tyc fs vs = true -> length fs = length vs.
Proof.
  induction fs as [|f fs IH]; destruct vs as [|v vs]; cbn [typed_fields]; intros H;
    try discriminate; [reflexivity|].
  apply andb_true_iff in H. destruct H as [_ H]. cbn [length]. f_equal. auto.
Qed.

(* tags *)
Lemma existsb_eqb_false x l : existsb (Z.eqb x) l = false -> ~ In x l.
Proof.
  intros H Hin. assert (existsb (Z.eqb x) l = true); [|congruence].
  apply existsb_exists. exists x. split; [assumption|apply Z.eqb_refl].
Qed.

Lemma nodup_z_NoDup l : nodup_z l = true -> NoDup l.
Proof.
  induction l as [|x l IH]; cbn [nodup_z]; intros H; constructor;
    apply andb_true_iff in H; destruct H as [H1 H2].
  - apply existsb_eqb_false. apply negb_true_iff. exact H1.
  - auto.
Qed.

Lemma tags_of_cons f fs :
  tags_of (f :: fs) = match f2_tag f with Some t => t :: tags_of fs | None => tags_of fs end.
Proof. unfold tags_of. cbn [flat_map]. destruct (f2_tag f); reflexivity. Qed.

Lemma in_tags_of f fs t : In f fs -> f2_tag f = Some t -> In t (tags_of fs).
Proof.
  intros Hf Ht. unfold tags_of. apply in_flat_map. exists f. split; [assumption|].
  rewrite Ht. left. reflexivity.
Qed.

Lemma tp_keys : forall fs vs t,
  In t (map fst (tagged_present (map wr fs) vs)) -> In t (tags_of fs).
Proof.
  induction fs as [|f fs IH]; intros vs t H; destruct vs as [|v vs]; cbn [map tagged_present] in H;
    try (destruct H; fail).
  cbn [wr fp_tag fp_default fp_codec] in H. rewrite tags_of_cons.
  destruct (f2_tag f) as [t'|]; [|eapply IH; eauto].
  destruct (val_eqb v (f2_default f)); [right; eapply IH; eauto|].
  cbn [map fst] in H. destruct H as [->|H]; [left; reflexivity|right; eapply IH; eauto].
Qed.

Lemma tp_nodup : forall fs vs, nodup_z (tags_of fs) = true ->
  NoDup (map fst (tagged_present (map wr fs) vs)).
Proof.
  induction fs as [|f fs IH]; intros vs H; destruct vs as [|v vs]; cbn [map tagged_present];
    try constructor.
  cbn [wr fp_tag fp_default fp_codec]. rewrite tags_of_cons in H.
  destruct (f2_tag f) as [t'|]; [|apply IH; exact H].
  cbn [nodup_z] in H. apply andb_true_iff in H. destruct H as [H1 H2].
  destruct (val_eqb v (f2_default f)); [apply IH; exact H2|].
  cbn [map fst]. constructor; [|apply IH; exact H2].
  intros Hin. apply tp_keys in Hin. apply negb_true_iff in H1.
  apply existsb_eqb_false in H1. contradiction.
Qed.

Lemma find_tag_rd : forall fs f t, nodup_z (tags_of fs) = true -> In f fs -> f2_tag f = Some t ->
  find_tag t (map rd fs) = Some (rd f).
Proof.
  induction fs as [|g fs IH]; intros f t Hnd Hin Ht; [destruct Hin|].
  unfold find_tag. cbn [map find]. cbn [rd fp_tag]. rewrite tags_of_cons in Hnd.
  destruct Hin as [->|Hin].
  - rewrite Ht, Z.eqb_refl. reflexivity.
  - destruct (f2_tag g) as [t'|] eqn:Eg.
    + cbn [nodup_z] in Hnd. apply andb_true_iff in Hnd. destruct Hnd as [H1 H2].
      apply negb_true_iff in H1. apply existsb_eqb_false in H1.
      destruct (Z.eqb_spec t t') as [->|Hne].
      * exfalso. apply H1. eapply in_tags_of; eauto.
      * apply IH; assumption.
    + apply IH; assumption.
Qed.

(* the last-wins lookup on lists with unique keys *)
Lemma assoc_last_app t a b :
  assoc_last t (a ++ b) = match assoc_last t b with Some v => Some v | None => assoc_last t a end.
Proof.
  induction a as [|[t' v] a IH]; cbn [app assoc_last].
  - destruct (assoc_last t b); reflexivity.
  - rewrite IH. destruct (assoc_last t b); reflexivity.
Qed.

Lemma assoc_last_some_in t : forall D v, assoc_last t D = Some v -> In (t, v) D.
Proof.
  induction D as [|[t' v'] D IH]; cbn [assoc_last]; intros v H; [discriminate|].
  destruct (assoc_last t D) as [x|].
  - right. apply IH. exact H.
  - destruct (Z.eqb_spec t t') as [->|]; [|discriminate]. left. congruence.
Qed.

Lemma assoc_last_notin t : forall D, ~ In t (map fst D) -> assoc_last t D = None.
Proof.
  induction D as [|[t' v'] D IH]; cbn [assoc_last map fst]; intros H; [reflexivity|].
  rewrite IH by (intros Hin; apply H; right; exact Hin). destruct (Z.eqb_spec t t') as [->|]; [|reflexivity]. exfalso. apply H. left. reflexivity.
Qed.

Lemma assoc_last_in t v : forall D, NoDup (map fst D) -> In (t, v) D -> assoc_last t D = Some v.
Proof.
  induction D as [|[t' v'] D IH]; cbn [assoc_last map fst]; intros Hnd Hin; [destruct Hin|].
  inversion Hnd as [|? ? Hx Hnd']; subst. destruct Hin as [Heq|Hin].
  - injection Heq as -> ->. rewrite (assoc_last_notin t D Hx), Z.eqb_refl. reflexivity.
  - rewrite (IH Hnd' Hin). reflexivity.
Qed.

Lemma assoc_last_perm t D D' : NoDup (map fst D) -> Permutation D D' ->
  assoc_last t D = assoc_last t D'.
Proof.
  intros Hnd Hp.
  assert (Hnd': NoDup (map fst D')) by (eapply Permutation_NoDup; [apply Permutation_map; exact Hp|exact Hnd]).
  destruct (assoc_last t D) as [v|] eqn:E1.
  - symmetry. apply assoc_last_in; [exact Hnd'|]. eapply Permutation_in; [exact Hp|].
    apply assoc_last_some_in. exact E1.
  - destruct (assoc_last t D') as [v'|] eqn:E2; [|reflexivity].
    apply assoc_last_some_in in E2. apply Permutation_sym in Hp.
    apply (Permutation_in _ Hp) in E2.
    apply (assoc_last_in t v' D Hnd) in E2. congruence.
Qed.

(* insertion sort permutes *)
Lemma insert_by_tag_perm {A} (x : Z * A) : forall l, Permutation (insert_by_tag x l) (x :: l).
Proof.
  induction l as [|y l IH]; cbn [insert_by_tag]; [apply Permutation_refl|].
  destruct (fst x <=? fst y); [apply Permutation_refl|].
  eapply perm_trans; [apply perm_skip; exact IH|apply perm_swap].
Qed.

Lemma sort_by_tag_perm {A} : forall l : list (Z * A), Permutation (sort_by_tag l) l.
Proof.
  induction l as [|x l IH]; cbn [sort_by_tag]; [apply Permutation_refl|].
  eapply perm_trans; [apply insert_by_tag_perm|apply perm_skip; exact IH].
Qed.

Lemma keep_some_map {A B} (g : A -> B) : forall l, keep_some (map (fun e => Some (g e)) l) = map g l.
Proof. induction l as [|x l IH]; cbn [map keep_some]; [reflexivity|]. rewrite IH. reflexivity. Qed.

Lemma Forall2_impl' {A B} (R1 R2 : A -> B -> Prop) : (forall a b, R1 a b -> R2 a b) ->
  forall l1 l2, Forall2 R1 l1 l2 -> Forall2 R2 l1 l2.
Proof. intros H l1 l2 HF. induction HF; constructor; auto. Qed.

(* what `fill` needs from the decoded tag list *)
Definition Pfield (D : list (Z * value)) (f : fplan2) (v : value) : Prop :=
  forall t, f2_tag f = Some t ->
  assoc_last t D = if val_eqb v (f2_default f) then None else Some v.

Lemma fill_ok D : forall fs vs, Forall2 (Pfield D) fs vs ->
  fill (map rd fs) (regular_vals fs vs) D = vs.
Proof.
  intros fs vs H. induction H as [|f v fs vs Hf Hfs IH]; [reflexivity|].
  cbn [map fill regular_vals]. cbn [rd fp_tag fp_default].
  destruct (f2_tag f) as [t|] eqn:Et.
  - rewrite (Hf t Et), IH. destruct (val_eqb v (f2_default f)) eqn:Ev; [|reflexivity].
    f_equal. symmetry. apply val_eqb_eq. exact Ev.
  - rewrite IH. reflexivity.
Qed.

Lemma map_fst_ent_proj l : map fst (map ent_proj l) = map fst l.
Proof. rewrite map_map. apply map_ext. intros [t [w v]]. reflexivity. Qed.

Lemma tp_Pfield : forall fs vs pre,
  nodup_z (tags_of fs) = true -> length fs = length vs ->
  (forall t, In t (map fst pre) -> ~ In t (tags_of fs)) ->
  Forall2 (Pfield (pre ++ map ent_proj (tagged_present (map wr fs) vs))) fs vs.
Proof.
  induction fs as [|f fs IH]; intros vs pre Hnd Hlen Hpre; destruct vs as [|v vs];
    cbn [length] in Hlen; try discriminate; [constructor|].
  injection Hlen as Hlen. cbn [map tagged_present]. cbn [wr fp_tag fp_default fp_codec].
  rewrite tags_of_cons in Hnd, Hpre.
  destruct (f2_tag f) as [t|] eqn:Et.
  - cbn [nodup_z] in Hnd. apply andb_true_iff in Hnd. destruct Hnd as [H1 H2].
    apply negb_true_iff in H1. apply existsb_eqb_false in H1.
    assert (Hnk: ~ In t (map fst (map ent_proj (tagged_present (map wr fs) vs)))).
    { rewrite map_fst_ent_proj. intros Hin. apply tp_keys in Hin. contradiction. }
    assert (Hnp: ~ In t (map fst pre)).
    { intros Hin. apply (Hpre t Hin). left. reflexivity. }
    destruct (val_eqb v (f2_default f)) eqn:Ev.
    + constructor.
      * intros t' Ht'. rewrite Et in Ht'. injection Ht' as <-. rewrite Ev.
        apply assoc_last_notin. rewrite map_app, in_app_iff. tauto.
      * apply IH; [exact H2|exact Hlen|]. intros t' Hin Hin'. apply (Hpre t' Hin). right. exact Hin'.
    + constructor.
      * intros t' Ht'. rewrite Et in Ht'. injection Ht' as <-. rewrite Ev.
        rewrite assoc_last_app. cbn [map ent_proj fst snd assoc_last].
        rewrite (assoc_last_notin t _ Hnk), Z.eqb_refl. reflexivity.
      * cbn [map]. change (pre ++ ent_proj (t, (f2_w f, v)) :: ?x) with (pre ++ [(t, v)] ++ x).
        rewrite app_assoc. apply IH; [exact H2|exact Hlen|].
        intros t' Hin Hin'. rewrite map_app, in_app_iff in Hin. destruct Hin as [Hin|Hin].
        -- apply (Hpre t' Hin). right. exact Hin'.
        -- cbn in Hin. destruct Hin as [<-|[]]. contradiction.
  - constructor; [intros t Ht; rewrite Et in Ht; discriminate|].
    apply IH; assumption.
Qed.

Lemma no_tags_Pfield D : forall fs vs, (forall f, In f fs -> f2_tag f = None) ->
  length fs = length vs -> Forall2 (Pfield D) fs vs.
Proof.
  induction fs as [|f fs IH]; intros vs H Hlen; destruct vs as [|v vs]; cbn [length] in Hlen;
    try discriminate; constructor.
  - intros t Ht. rewrite (H f (or_introl eq_refl)) in Ht. discriminate.
  - apply IH; [intros; apply H; right; assumption|congruence].
Qed.

Section CodecLevel.
  Variable E : list cplan2.
  Variable ec : list Z.
  Variable fuel : nat.
  Variable encc : nat -> value -> res (list Z).
  Variable decc : nat -> prog value.
  Variable tyc : nat -> value -> bool.
  Variable i : nat.

  Hypothesis Hcls : forall j v b tl, (j < i)%nat -> tyc j v = true -> encc j v = Ok b ->
    (length (b ++ tl) < fuel)%nat -> run (decc j) (b ++ tl) = Ok (v, tl).
  Hypothesis Hne : forall j cj v b, nth_error E j = Some cj -> class_nonempty cj = true ->
    tyc j v = true -> encc j v = Ok b -> (1 <= length b)%nat.
  Hypothesis Hbok : forall j v b, tyc j v = true -> encc j v = Ok b -> bytes_ok b = true.

  Lemma arr_prefix_nonempty (c : bool) n p :
    (if c then write_len_compact (n + 1)
     else if in_int_range 4 true n then write_int 4 true n else Err EOutOfBound) = Ok p ->
    (1 <= length p)%nat.
  Proof.
    destruct c; intros H.
    - eapply write_len_compact_nonempty; eauto.
    - destruct (in_int_range 4 true n); [|discriminate].
      apply write_int_length in H. lia.
  Qed.

  Lemma arr_prefix_bytes_ok (c : bool) n p :
    (if c then write_len_compact (n + 1)
     else if in_int_range 4 true n then write_int 4 true n else Err EOutOfBound) = Ok p ->
    bytes_ok p = true.
  Proof.
    destruct c; intros H.
    - eapply write_len_compact_bytes_ok; eauto.
    - destruct (in_int_range 4 true n); [|discriminate].
      eapply write_int_bytes_ok; eauto.
  Qed.

  Lemma arr_null_nonempty (c : bool) p :
    (if c then Ok [0] else write_int 4 true (-1)) = Ok p -> (1 <= length p)%nat.
  Proof.
    destruct c; intros H; [ok_inj H; cbn; lia|]. apply write_int_length in H. lia.
  Qed.

  (* at least one byte, for reasons visible at the top of the codec *)
  Lemma codec_nonempty_top w v bs :
    top_nonempty w = true -> codec_ok w = true -> typed_codec ec tyc w v = true ->
    enc_codec encc w v = Ok bs -> (1 <= length bs)%nat.
  Proof.
    destruct w as [p|j n|c w]; cbn [top_nonempty codec_ok typed_codec enc_codec];
      intros Hn Hok Ht H.
    - eapply prim_enc_nonempty_typed; eauto.
    - subst n. destruct v; try (rb H eb Heb; ok_inj H; cbn [length]; lia).
      ok_inj H. cbn; lia.
    - destruct v; try discriminate.
      + eapply arr_null_nonempty; eauto.
      + rb H p Hp. rb H b Hb. ok_inj H. apply arr_prefix_nonempty in Hp.
        rewrite app_length. lia.
  Qed.

  Lemma codec_nonempty w v bs :
    item_nonempty E w = true -> codec_ok w = true -> typed_codec ec tyc w v = true ->
    enc_codec encc w v = Ok bs -> (1 <= length bs)%nat.
  Proof.
    intros Hn Hok Ht H.
    destruct (top_nonempty w) eqn:Etop; [eapply codec_nonempty_top; eauto|].
    destruct w as [p|j n|c w]; cbn [top_nonempty] in Etop; try discriminate. subst n.
    cbn [item_nonempty orb] in Hn. cbn [typed_codec enc_codec] in Ht, H.
    destruct (nth_error E j) as [cj|] eqn:Ej; [|discriminate].
    destruct v; try discriminate; eapply Hne; eauto.
  Qed.

  Lemma codec_bytes_ok : forall w v bs,
    typed_codec ec tyc w v = true -> enc_codec encc w v = Ok bs -> bytes_ok bs = true.
  Proof.
    induction w as [p|j n|c w IH]; intros v bs Ht H; cbn [typed_codec enc_codec] in Ht, H.
    - eapply prim_enc_bytes_ok; eauto.
    - destruct n.
      + destruct v; try (rb H eb Heb; ok_inj H; apply Hbok in Heb; [|assumption];
                         change (bytes_ok (1 :: eb)) with (byte_ok 1 && bytes_ok eb);
                         rewrite Heb; reflexivity).
        ok_inj H. reflexivity.
      + destruct v; try discriminate; eapply Hbok; eauto.
    - destruct v; try discriminate.
      + eapply (write_null_bytes_ok c 4); eauto.
      + rb H p Hp. rb H b Hb. ok_inj H. apply arr_prefix_bytes_ok in Hp.
        rewrite bytes_ok_app, Hp. cbn [andb].
        apply andb_true_iff in Ht. destruct Ht as [Hall _]. rewrite forallb_forall in Hall.
        eapply rconcat_bytes_ok; [|exact Hb]. intros x y Hx Hy.
        eapply IH; [|exact Hy]. apply Hall. exact Hx.
  Qed.

  Theorem codec_rt : forall w r v bs tl,
    codec_sub w r = true -> refs_lt i w = true -> items_nonempty E w = true ->
    codec_ok w = true -> typed_codec ec tyc w v = true -> enc_codec encc w v = Ok bs ->
    (length (bs ++ tl) < fuel)%nat ->
    run (dec_codec ec fuel decc r) (bs ++ tl) = Ok (v, tl).
  Proof.
    induction w as [p|j n|c w IH]; intros r v bs tl Hsub Hlt Hin Hok Ht H Hf;
      destruct r as [q|j' n'|c' r]; cbn [codec_sub] in Hsub; try discriminate.
    - cbn [dec_codec enc_codec typed_codec] in *. eapply prim_roundtrip; eauto.
    - apply andb_true_iff in Hsub. destruct Hsub as [Hj Hn].
      apply Nat.eqb_eq in Hj. apply eqb_prop in Hn. subst j' n'.
      cbn [refs_lt] in Hlt. apply Nat.ltb_lt in Hlt.
      cbn [dec_codec enc_codec typed_codec] in *. destruct n.
      + destruct v;
          try (rb H eb Heb; ok_inj H; change ((1 :: eb) ++ tl) with (1 :: (eb ++ tl));
               rewrite run_bind, read_marker_one; cbn [Z.eqb Pos.eqb];
               apply Hcls; [exact Hlt|exact Ht|exact Heb|cbn [app length] in Hf; lia]).
        ok_inj H. cbn [app]. rewrite run_bind, read_marker_null. reflexivity.
      + destruct v; try discriminate; apply Hcls; auto.
    - apply andb_true_iff in Hsub. destruct Hsub as [Hc Hs]. apply eqb_prop in Hc. subst c'.
      cbn [refs_lt codec_ok] in Hlt, Hok. cbn [items_nonempty] in Hin.
      apply andb_true_iff in Hin. destruct Hin as [Hin Hitem].
      change (item_nonempty E w = true) in Hitem.
      cbn [dec_codec enc_codec typed_codec] in *.
      destruct v; try discriminate.
      + (* null array *)
        rewrite run_bind. destruct c.
        * ok_inj H. cbn [app]. rewrite read_compact_len_null. reflexivity.
        * rewrite (read_write_int_any _ _ _ _ _ H). reflexivity.
      + rb H p Hp. rb H b Hb. ok_inj H. apply andb_true_iff in Ht. destruct Ht as [Hall Hsz].
        rewrite forallb_forall in Hall.
        rewrite <- app_assoc, run_bind.
        assert (Hlen: run (if c then read_compact_len else read_int 4 true) (p ++ b ++ tl)
                      = Ok (zlen items, b ++ tl)).
        { destruct c; [apply read_compact_len_rt; exact Hp|].
          destruct (in_int_range 4 true (zlen items)); [|discriminate].
          apply read_write_int_any. exact Hp. }
        rewrite Hlen, zlen_neq_m1, run_bind.
        assert (Hb2: (length (b ++ tl) < fuel)%nat) by (eapply length_app_tl; exact Hf).
        rewrite (run_repeat_concat (dec_codec ec fuel decc r) (enc_codec encc w) (fun x => x) fuel
                   items b tl fuel); [rewrite map_id; reflexivity| |exact Hb|exact Hb2|].
        * intros x y tl' Hx Hy Hl. apply IH; auto.
        * assert (length items <= length b)%nat.
          { eapply rconcat_length_ge; [|exact Hb]. intros x y Hx Hy.
            eapply codec_nonempty; eauto. }
          rewrite app_length in Hb2. lia.
  Qed.

  (* ---- fields ---- *)
  Lemma regular_rt fl : forall fs vs bs tl,
    forallb (wf_field E i fl) fs = true -> typed_fields ec tyc fs vs = true ->
    enc_regular encc (map wr fs) vs = Ok bs -> (length (bs ++ tl) < fuel)%nat ->
    run (dec_regular ec fuel decc (map rd fs)) (bs ++ tl) = Ok (regular_vals fs vs, tl).
  Proof.
    induction fs as [|f fs IH]; intros vs bs tl Hwf Ht H Hf; destruct vs as [|v vs];
      cbn [typed_fields] in Ht; try discriminate.
    - cbn in H. ok_inj H. reflexivity.
    - cbn [map enc_regular dec_regular regular_vals] in *. cbn [wr rd fp_tag fp_codec] in *.
      cbn [forallb] in Hwf. apply andb_true_iff in Hwf. destruct Hwf as [Hwf1 Hwf].
      apply andb_true_iff in Ht. destruct Ht as [Ht1 Ht].
      destruct (f2_tag f) as [t|] eqn:Etag.
      + apply IH; auto.
      + rb H a Ha. rb H b Hb. ok_inj H.
        apply wf_field_inv in Hwf1. destruct Hwf1 as [Hs [Hlt [Hin [Hok _]]]].
        rewrite <- app_assoc, run_bind.
        rewrite (codec_rt (f2_w f) (f2_r f) v a (b ++ tl)); auto;
          [|rewrite app_assoc; exact Hf].
        rewrite run_bind, (IH vs b tl); auto. eapply length_app_tl; eauto.
  Qed.

  Definition good_entry (fs : list fplan2) (e : Z * (codec * value)) : Prop :=
    exists f, In f fs /\ f2_tag f = Some (fst e) /\ f2_w f = fst (snd e) /\
              typed_codec ec tyc (f2_w f) (snd (snd e)) = true.

  Lemma tp_good : forall fs vs e, typed_fields ec tyc fs vs = true ->
    In e (tagged_present (map wr fs) vs) -> good_entry fs e.
  Proof.
    induction fs as [|f fs IH]; intros vs e Ht H; destruct vs as [|v vs];
      cbn [map tagged_present] in H; try (destruct H; fail).
    cbn [typed_fields] in Ht. apply andb_true_iff in Ht. destruct Ht as [Ht1 Ht].
    cbn [wr fp_tag fp_default fp_codec] in H.
    assert (Hmono: good_entry fs e -> good_entry (f :: fs) e).
    { intros [g [Hg Hrest]]. exists g. split; [right; exact Hg|exact Hrest]. }
    destruct (f2_tag f) as [t|] eqn:Et; [|apply Hmono; eapply IH; eauto].
    destruct (val_eqb v (f2_default f)) eqn:Ev; [apply Hmono; eapply IH; eauto|].
    destruct H as [<-|H]; [|apply Hmono; eapply IH; eauto].
    cbn [orb] in Ht1. exists f. cbn [fst snd]. repeat split; auto. left. reflexivity.
  Qed.

  Lemma entry_nonempty e b : enc_tag_entry encc e = Ok b -> (1 <= length b)%nat.
  Proof.
    unfold enc_tag_entry. intros H. rb H pay Hpay. rb H sz Hsz. ok_inj H.
    rewrite app_length. pose proof (uvarint_bytes_nonempty (fst e)). lia.
  Qed.

  Lemma entry_rt fl fs e b tl :
    forallb (wf_field E i fl) fs = true -> nodup_z (tags_of fs) = true -> good_entry fs e ->
    enc_tag_entry encc e = Ok b -> (length (b ++ tl) < fuel)%nat ->
    run (dec_one_tag ec fuel decc (map rd fs)) (b ++ tl) = Ok (Some (ent_proj e), tl).
  Proof.
    intros Hwf Hnd [f [Hf [Htag [Hw Hty]]]] H Hlen.
    rewrite forallb_forall in Hwf. apply Hwf in Hf as Hwff.
    apply wf_field_inv in Hwff. destruct Hwff as [Hs [Hlt [Hin [Hok Ht]]]].
    destruct (Ht _ Htag) as [_ Hrange].
    unfold enc_tag_entry in H. rewrite <- Hw in H. rb H pay Hpay. rb H sz Hsz. ok_inj H.
    unfold dec_one_tag. rewrite <- !app_assoc, run_bind.
    assert (2 ^ 31 < 2 ^ 35) by (apply Z.pow_lt_mono_r; lia).
    rewrite read_write_uvarint by lia.
    rewrite run_bind, (read_uvarint_len _ _ _ Hsz).
    rewrite (find_tag_rd fs f (fst e) Hnd Hf Htag). cbn [rd fp_codec].
    rewrite run_bind, (codec_rt (f2_w f) (f2_r f) (snd (snd e)) pay tl); auto.
    rewrite !app_length in Hlen. rewrite app_length. lia.
  Qed.

  (* ---- entities ---- *)
  Lemma enc_entity_unfold c v :
    enc_entity encc (writer_plan c) v =
    if negb (c2_flexible c) && has_tag2 (c2_fields c) then Err EValue else
    match v with
    | VEnt vs =>
        rbind (enc_regular encc (map wr (c2_fields c)) vs) (fun r =>
        if c2_flexible c then
          let entries := sort_by_tag (tagged_present (map wr (c2_fields c)) vs) in
          rbind (rconcat (map (enc_tag_entry encc) entries)) (fun t =>
          rbind (write_len_compact (zlen entries)) (fun n => Ok (r ++ n ++ t)))
        else Ok r)
    | _ => Err EType
    end.
  Proof. unfold enc_entity. rewrite writer_fields, has_tagged_wr. reflexivity. Qed.

  Lemma dec_entity_unfold c :
    dec_entity ec fuel decc (reader_plan c) =
    if negb (c2_flexible c) && has_tag2 (c2_fields c) then Fail EValue else
    r <- dec_regular ec fuel decc (map rd (c2_fields c)) ;;
    if c2_flexible c then
      n <- read_uvarint ;;
      tags <- repeat_prog fuel n (dec_one_tag ec fuel decc (map rd (c2_fields c))) ;;
      Ret (VEnt (fill (map rd (c2_fields c)) r (keep_some tags)))
    else Ret (VEnt (fill (map rd (c2_fields c)) r [])).
  Proof. unfold dec_entity. rewrite reader_fields, has_tagged_rd. reflexivity. Qed.

  Theorem entity_rt c v bs tl :
    wf_class E i c = true -> typed_entity ec tyc c v = true ->
    enc_entity encc (writer_plan c) v = Ok bs -> (length (bs ++ tl) < fuel)%nat ->
    run (dec_entity ec fuel decc (reader_plan c)) (bs ++ tl) = Ok (v, tl).
  Proof.
    intros Hwf Ht H Hlen. unfold wf_class in Hwf. apply andb_true_iff in Hwf.
    destruct Hwf as [Hwf Hnd].
    rewrite enc_entity_unfold in H. rewrite dec_entity_unfold.
    destruct (negb (c2_flexible c) && has_tag2 (c2_fields c)) eqn:Eg; [discriminate|].
    destruct v as [| | | | | | | | | |vs]; try discriminate. cbn [typed_entity] in Ht.
    pose proof (typed_fields_length _ _ _ _ Ht) as Hl.
    rb H r Hr. rewrite run_bind.
    destruct (c2_flexible c) eqn:Efl.
    - cbv zeta in H. rb H t Hent. rb H n Hn. ok_inj H.
      set (TP := tagged_present (map wr (c2_fields c)) vs) in *.
      rewrite <- !app_assoc in *.
      rewrite (regular_rt true (c2_fields c) vs r (n ++ t ++ tl)); auto.
      assert (Hl2: (length (t ++ tl) < fuel)%nat) by (rewrite !app_length in *; lia).
      rewrite run_bind, (read_uvarint_len _ _ _ Hn), run_bind.
      assert (Hperm: Permutation (sort_by_tag TP) TP) by apply sort_by_tag_perm.
      rewrite (run_repeat_concat (dec_one_tag ec fuel decc (map rd (c2_fields c)))
                 (enc_tag_entry encc) (fun e => Some (ent_proj e)) fuel
                 (sort_by_tag TP) t tl fuel); [| |exact Hent|exact Hl2|].
      + cbn [run]. rewrite keep_some_map. rewrite fill_ok; [reflexivity|].
        eapply Forall2_impl'; [|apply (tp_Pfield (c2_fields c) vs [] Hnd Hl); intros ? []].
        intros f v Hp x Hx. cbn [app] in Hp. rewrite <- (Hp x Hx).
        apply assoc_last_perm.
        * apply (Permutation_NoDup (l := map fst (map ent_proj TP))).
          { apply Permutation_map, Permutation_map, Permutation_sym, Hperm. }
          rewrite map_fst_ent_proj. apply tp_nodup. exact Hnd.
        * apply Permutation_map. exact Hperm.
      + intros e b tl' He Hb Hl'. eapply entry_rt; eauto.
        eapply tp_good; [exact Ht|]. eapply Permutation_in; [exact Hperm|exact He].
      + assert (length (sort_by_tag TP) <= length t)%nat.
        { eapply rconcat_length_ge; [|exact Hent]. intros x y _ Hy. eapply entry_nonempty; eauto. }
        rewrite app_length in Hl2. lia.
    - ok_inj H. cbn [negb andb] in Eg.
      rewrite (regular_rt false (c2_fields c) vs bs tl); auto.
      cbn [run]. rewrite fill_ok; [reflexivity|]. apply no_tags_Pfield; [|exact Hl].
      apply has_tag2_false. exact Eg.
  Qed.
End CodecLevel.

(* ------------------------------------------------------------------------------------------ *)
(* entity level: at least one byte; byte strings *)
Section EntityLevel.
  Variable ec : list Z.
  Variable encc : nat -> value -> res (list Z).
  Variable tyc : nat -> value -> bool.

  Lemma field_nonempty_top f : field_nonempty f = true ->
    f2_tag f = None /\ top_nonempty (f2_w f) = true.
  Proof.
    unfold field_nonempty, top_nonempty. destruct (f2_tag f); [discriminate|]. auto.
  Qed.

  Lemma regular_nonempty : forall fs vs bs,
    existsb field_nonempty fs = true -> (forall f, In f fs -> codec_ok (f2_w f) = true) ->
    typed_fields ec tyc fs vs = true -> enc_regular encc (map wr fs) vs = Ok bs ->
    (1 <= length bs)%nat.
  Proof.
    induction fs as [|f fs IH]; intros vs bs Hex Hok Ht H; [discriminate|].
    destruct vs as [|v vs]; cbn [typed_fields] in Ht; [discriminate|].
    cbn [map enc_regular] in H. cbn [wr fp_tag fp_codec] in H.
    apply andb_true_iff in Ht. destruct Ht as [Ht1 Ht].
    cbn [existsb] in Hex. destruct (field_nonempty f) eqn:Ef.
    - apply field_nonempty_top in Ef. destruct Ef as [Etag Etop]. rewrite Etag in *.
      rb H a Ha. rb H b Hb. ok_inj H. rewrite app_length.
      assert (1 <= length a)%nat; [|lia].
      eapply codec_nonempty_top; eauto. apply Hok. left. reflexivity.
    - cbn [orb] in Hex.
      assert (Hrec: forall b, enc_regular encc (map wr fs) vs = Ok b -> (1 <= length b)%nat).
      { intros b Hb. eapply IH; eauto. intros g Hg. apply Hok. right. exact Hg. }
      destruct (f2_tag f); [auto|].
      rb H a Ha. rb H b Hb. ok_inj H. rewrite app_length. apply Hrec in Hb. lia.
  Qed.

  Lemma entity_nonempty E k c v bs :
    class_nonempty c = true -> wf_class E k c = true -> typed_entity ec tyc c v = true ->
    enc_entity encc (writer_plan c) v = Ok bs -> (1 <= length bs)%nat.
  Proof.
    intros Hne Hwf Ht H. rewrite enc_entity_unfold in H.
    destruct (negb (c2_flexible c) && has_tag2 (c2_fields c)); [discriminate|].
    destruct v as [| | | | | | | | | |vs]; try discriminate. cbn [typed_entity] in Ht.
    rb H r Hr. unfold class_nonempty in Hne. destruct (c2_flexible c).
    - cbv zeta in H. rb H t Hent. rb H n Hn. ok_inj H.
      apply write_len_compact_nonempty in Hn. rewrite !app_length. lia.
    - ok_inj H. cbn [orb] in Hne. eapply regular_nonempty; eauto.
      intros f Hf. unfold wf_class in Hwf. apply andb_true_iff in Hwf. destruct Hwf as [Hwf _].
      rewrite forallb_forall in Hwf. apply Hwf in Hf. apply wf_field_inv in Hf. tauto.
  Qed.

  Hypothesis Hbok : forall j v b, tyc j v = true -> encc j v = Ok b -> bytes_ok b = true.

  Lemma regular_bytes_ok : forall fs vs bs,
    typed_fields ec tyc fs vs = true -> enc_regular encc (map wr fs) vs = Ok bs ->
    bytes_ok bs = true.
  Proof.
    induction fs as [|f fs IH]; intros vs bs Ht H; destruct vs as [|v vs];
      cbn [typed_fields] in Ht; try discriminate.
    - cbn in H. ok_inj H. reflexivity.
    - cbn [map enc_regular] in H. cbn [wr fp_tag fp_codec] in H.
      apply andb_true_iff in Ht. destruct Ht as [Ht1 Ht].
      destruct (f2_tag f); [eapply IH; eauto|].
      rb H a Ha. rb H b Hb. ok_inj H. rewrite bytes_ok_app. apply andb_true_iff. split.
      + eapply codec_bytes_ok; eauto.
      + eapply IH; eauto.
  Qed.

  Lemma entry_bytes_ok fs e b : good_entry ec tyc fs e -> enc_tag_entry encc e = Ok b ->
    bytes_ok b = true.
  Proof.
    intros [f [Hf [Htag [Hw Hty]]]] H. unfold enc_tag_entry in H. rewrite <- Hw in H.
    rb H pay Hpay. rb H sz Hsz. ok_inj H. rewrite !bytes_ok_app.
    rewrite uvarint_bytes_ok, (write_len_compact_bytes_ok _ _ Hsz).
    cbn [andb]. eapply codec_bytes_ok; eauto.
  Qed.

  Lemma entity_bytes_ok c v bs : typed_entity ec tyc c v = true ->
    enc_entity encc (writer_plan c) v = Ok bs -> bytes_ok bs = true.
  Proof.
    intros Ht H. rewrite enc_entity_unfold in H.
    destruct (negb (c2_flexible c) && has_tag2 (c2_fields c)); [discriminate|].
    destruct v as [| | | | | | | | | |vs]; try discriminate. cbn [typed_entity] in Ht.
    rb H r Hr. apply (regular_bytes_ok _ _ _ Ht) in Hr. destruct (c2_flexible c).
    - cbv zeta in H. rb H t Hent. rb H n Hn. ok_inj H.
      rewrite !bytes_ok_app, Hr, (write_len_compact_bytes_ok _ _ Hn). cbn [andb].
      eapply rconcat_bytes_ok; [|exact Hent]. intros e b He Hb.
      eapply entry_bytes_ok; [|exact Hb]. eapply tp_good; [exact Ht|].
      eapply Permutation_in; [apply sort_by_tag_perm|exact He].
    - ok_inj H. exact Hr.
  Qed.
End EntityLevel.

(* ------------------------------------------------------------------------------------------ *)
(* environments: the induction on the rank *)
Lemma wf_from_nth E : forall l k n c,
  wf_from E k l = true -> nth_error l n = Some c -> wf_class E (k + n) c = true.
Proof.
  induction l as [|x l IH]; intros k n c Hwf Hn; [destruct n; discriminate|].
  cbn [wf_from] in Hwf. apply andb_true_iff in Hwf. destruct Hwf as [H1 H2].
  destruct n as [|n]; cbn [nth_error] in Hn.
  - injection Hn as <-. rewrite Nat.add_0_r. exact H1.
  - replace (k + S n)%nat with (S k + n)%nat by lia. apply IH; assumption.
Qed.

Lemma wf_env_nth E i c : wf_env E = true -> nth_error E i = Some c -> wf_class E i c = true.
Proof. intros H Hn. apply (wf_from_nth E E 0 i c H Hn). Qed.

Lemma class_bytes_ok E ec : forall r i v bs,
  typed_class E ec r i v = true -> enc_class (map writer_plan E) r i v = Ok bs ->
  bytes_ok bs = true.
Proof.
  induction r as [|r IH]; intros i v bs Ht H; [discriminate|].
  cbn [typed_class enc_class] in Ht, H. rewrite nth_error_map in H.
  destruct (nth_error E i) as [c|]; [|discriminate]. cbn [option_map] in H.
  eapply entity_bytes_ok; [|exact Ht|exact H]. exact IH.
Qed.

Lemma class_nonempty_len E ec : wf_env E = true -> forall r j cj v b,
  nth_error E j = Some cj -> class_nonempty cj = true ->
  typed_class E ec r j v = true -> enc_class (map writer_plan E) r j v = Ok b ->
  (1 <= length b)%nat.
Proof.
  intros Hwf r j cj v b Hj Hne Ht H. destruct r as [|r]; [discriminate|].
  cbn [typed_class enc_class] in Ht, H. rewrite nth_error_map, Hj in H. rewrite Hj in Ht.
  cbn [option_map] in H. eapply entity_nonempty; eauto. eapply wf_env_nth; eauto.
Qed.

Theorem class_rt E ec fuel : wf_env E = true -> forall r i, (i < r)%nat -> forall v bs tl,
  typed_class E ec r i v = true -> enc_class (map writer_plan E) r i v = Ok bs ->
  (length (bs ++ tl) < fuel)%nat ->
  run (dec_class (map reader_plan E) ec fuel r i) (bs ++ tl) = Ok (v, tl).
Proof.
  intros Hwf. induction r as [|r IH]; intros i Hi v bs tl Ht H Hlen; [lia|].
  cbn [typed_class enc_class dec_class] in *. rewrite nth_error_map in *.
  destruct (nth_error E i) as [c|] eqn:Ei; [|discriminate]. cbn [option_map] in *.
  eapply (entity_rt E ec fuel (enc_class (map writer_plan E) r)
            (dec_class (map reader_plan E) ec fuel r) (typed_class E ec r) i); eauto.
  - intros j v' b tl' Hj. apply IH. lia.
  - intros j cj v' b. apply class_nonempty_len. exact Hwf.
  - eapply wf_env_nth; eauto.
Qed.

(* ------------------------------------------------------------------------------------------ *)
(* C01 *)
Theorem codec_roundtrip : forall (E : list cplan2) (ec : list Z), wf_env E = true ->
  forall i v bs tl fuel,
  typed E ec i v = true ->
  encode (map writer_plan E) i v = Ok bs ->
  (length (bs ++ tl) < fuel)%nat ->
  run (decoder (map reader_plan E) ec i fuel) (bs ++ tl) = Ok (v, tl).
Proof.
  intros E ec Hwf i v bs tl fuel Ht H Hlen. unfold typed, encode, decoder in *.
  eapply class_rt; eauto.
Qed.
Print Assumptions codec_roundtrip.

Corollary decode_encode : forall E ec, wf_env E = true -> forall i v bs tl,
  typed E ec i v = true -> encode (map writer_plan E) i v = Ok bs ->
  decode (map reader_plan E) ec i (bs ++ tl) = Ok (v, tl).
Proof.
  intros E ec Hwf i v bs tl Ht H. unfold decode. eapply codec_roundtrip; eauto.
Qed.
Print Assumptions decode_encode.

Theorem encode_bytes_ok : forall E ec, wf_env E = true -> forall i v bs,
  typed E ec i v = true -> encode (map writer_plan E) i v = Ok bs -> bytes_ok bs = true.
Proof.
  intros E ec _ i v bs Ht H. unfold typed, encode in *. eapply class_bytes_ok; eauto.
Qed.
Print Assumptions encode_bytes_ok.

(* ------------------------------------------------------------------------------------------ *)
(* totality of the encoder.
   `typed` bounds strings, bytes and arrays, but not the two quantities that entity_writer
   passes through uvarint(...) in a flexible class: the byte length of a tagged field's
   payload, and the number of tagged fields present.  Both raise TypeError above 2^35 - 1.
   `sizes_ok` states, for every entity nested in the value, exactly these two bounds. *)
Section Sized.
  Variable encc : nat -> value -> res (list Z).
  Variable szc : nat -> value -> bool.

  Fixpoint sized_codec (c : codec) (v : value) : bool :=
    match c with
    | CPrim _ => true
    | CEnt j _ => match v with VNull => true | _ => szc j v end
    | CArr _ item => match v with VArr l => forallb (sized_codec item) l | _ => true end
    end.

  (* the payload of a tagged field fits its size prefix *)
  Definition payload_fits (c : codec) (v : value) : bool :=
    match enc_codec encc c v with Ok p => zlen p <=? uvarint_hi | Err _ => true end.

  Fixpoint sized_fields (fs : list fplan) (vs : list value) : bool :=
    match fs, vs with
    | f :: ftl, v :: vtl =>
        (match fp_tag f with
         | Some _ => val_eqb v (fp_default f)
                     || (sized_codec (fp_codec f) v && payload_fits (fp_codec f) v)
         | None => sized_codec (fp_codec f) v
         end) && sized_fields ftl vtl
    | _, _ => true
    end.

  Definition sized_entity (c : cplan) (v : value) : bool :=
    match v with
    | VEnt vs => sized_fields (cp_fields c) vs
                 && (zlen (tagged_present (cp_fields c) vs) <=? uvarint_hi)
    | _ => true
    end.
End Sized.

Fixpoint sized_class (W : penv) (rank : nat) (i : nat) (v : value) : bool :=
  match rank with
  | O => true
  | S r => match nth_error W i with
           | None => true
           | Some c => sized_entity (enc_class W r) (sized_class W r) c v
           end
  end.
Definition sizes_ok (W : penv) (i : nat) (v : value) : bool := sized_class W (S i) i v.

Section TotalLevel.
  Variable E : list cplan2.
  Variable ec : list Z.
  Variable encc : nat -> value -> res (list Z).
  Variable tyc : nat -> value -> bool.
  Variable szc : nat -> value -> bool.
  Variable i : nat.
  Hypothesis Htot : forall j v, (j < i)%nat -> tyc j v = true -> szc j v = true ->
    exists b, encc j v = Ok b.

  Lemma codec_total : forall w v, refs_lt i w = true ->
    typed_codec ec tyc w v = true -> sized_codec szc w v = true ->
    exists bs, enc_codec encc w v = Ok bs.
  Proof.
    induction w as [p|j n|c w IH]; intros v Hlt Ht Hs;
      cbn [refs_lt typed_codec sized_codec enc_codec] in *.
    - eapply prim_enc_total; eauto.
    - apply Nat.ltb_lt in Hlt. destruct n.
      + destruct v; try (destruct (Htot j _ Hlt Ht Hs) as [eb ->]; cbn [rbind]; eauto).
        eauto.
      + destruct v; try discriminate; apply Htot; auto.
    - destruct v; try discriminate.
      + destruct c; [eauto|]. apply write_int_total. reflexivity.
      + apply andb_true_iff in Ht. destruct Ht as [Hall Hsz].
        rewrite forallb_forall in Hall, Hs.
        assert (Hp: exists p, (if c then write_len_compact (zlen items + 1)
                  else if in_int_range 4 true (zlen items) then write_int 4 true (zlen items)
                       else Err EOutOfBound) = Ok p).
        { destruct c.
          - apply Z.leb_le in Hsz. rewrite write_len_compact_ok; [eauto|]. unfold zlen in *. lia.
          - apply Z.leb_le in Hsz.
            assert (Hr: in_int_range 4 true (zlen items) = true)
              by (apply range_s4; unfold zlen in *; lia).
            rewrite Hr. apply write_int_total. exact Hr. }
        destruct Hp as [p ->]. cbn [rbind].
        destruct (rconcat_total (enc_codec encc w) items) as [b ->]; [|cbn [rbind]; eauto].
        intros x Hx. apply IH; auto.
  Qed.

  Lemma regular_total fl : forall fs vs,
    forallb (wf_field E i fl) fs = true -> typed_fields ec tyc fs vs = true ->
    sized_fields encc szc (map wr fs) vs = true ->
    exists bs, enc_regular encc (map wr fs) vs = Ok bs.
  Proof.
    induction fs as [|f fs IH]; intros vs Hwf Ht Hs; destruct vs as [|v vs];
      cbn [typed_fields] in Ht; try discriminate; [cbn; eauto|].
    cbn [map enc_regular sized_fields] in *. cbn [wr fp_tag fp_codec fp_default] in *.
    cbn [forallb] in Hwf. apply andb_true_iff in Hwf. destruct Hwf as [Hwf1 Hwf].
    apply andb_true_iff in Ht. destruct Ht as [Ht1 Ht].
    apply andb_true_iff in Hs. destruct Hs as [Hs1 Hs].
    destruct (IH vs Hwf Ht Hs) as [b Hb].
    destruct (f2_tag f); [eauto|]. rewrite Hb.
    apply wf_field_inv in Hwf1. destruct Hwf1 as [_ [Hlt _]].
    destruct (codec_total _ _ Hlt Ht1 Hs1) as [a ->]. cbn [rbind]. eauto.
  Qed.

  Lemma tp_fits : forall fs vs e, sized_fields encc szc (map wr fs) vs = true ->
    In e (tagged_present (map wr fs) vs) ->
    sized_codec szc (fst (snd e)) (snd (snd e)) = true /\
    payload_fits encc (fst (snd e)) (snd (snd e)) = true.
  Proof.
    induction fs as [|f fs IH]; intros vs e Hs H; destruct vs as [|v vs];
      cbn [map tagged_present] in H; try (destruct H; fail).
    cbn [map sized_fields] in Hs. apply andb_true_iff in Hs. destruct Hs as [Hs1 Hs].
    cbn [wr fp_tag fp_default fp_codec] in *.
    destruct (f2_tag f) as [t|]; [|eapply IH; eauto].
    destruct (val_eqb v (f2_default f)); [eapply IH; eauto|].
    destruct H as [<-|H]; [|eapply IH; eauto].
    cbn [orb fst snd] in *. apply andb_true_iff in Hs1. exact Hs1.
  Qed.

  Lemma wf_no_tags fs : forallb (wf_field E i false) fs = true -> has_tag2 fs = false.
  Proof.
    induction fs as [|f fs IH]; intros H; [reflexivity|].
    cbn [forallb] in H. apply andb_true_iff in H. destruct H as [H1 H2].
    unfold has_tag2. cbn [existsb]. fold (has_tag2 fs). rewrite (IH H2).
    apply wf_field_inv in H1. destruct H1 as [_ [_ [_ [_ H1]]]].
    destruct (f2_tag f) as [t|]; [|reflexivity]. destruct (H1 t eq_refl). discriminate.
  Qed.

  Theorem entity_total c v :
    wf_class E i c = true -> typed_entity ec tyc c v = true ->
    sized_entity encc szc (writer_plan c) v = true ->
    exists bs, enc_entity encc (writer_plan c) v = Ok bs.
  Proof.
    intros Hwf Ht Hs. unfold wf_class in Hwf. apply andb_true_iff in Hwf.
    destruct Hwf as [Hwf Hnd]. rewrite enc_entity_unfold.
    destruct v as [| | | | | | | | | |vs]; try discriminate.
    cbn [typed_entity sized_entity] in Ht, Hs. rewrite writer_fields in Hs.
    apply andb_true_iff in Hs. destruct Hs as [Hs Hcount]. apply Z.leb_le in Hcount.
    destruct (c2_flexible c) eqn:Efl.
    - cbn [negb andb].
      destruct (regular_total true _ _ Hwf Ht Hs) as [r ->]. cbn [rbind]. cbv zeta.
      set (TP := tagged_present (map wr (c2_fields c)) vs) in *.
      assert (Hperm: Permutation (sort_by_tag TP) TP) by apply sort_by_tag_perm.
      destruct (rconcat_total (enc_tag_entry encc) (sort_by_tag TP)) as [t ->].
      { intros e He. apply (Permutation_in _ Hperm) in He.
        destruct (tp_good ec tyc _ _ _ Ht He) as [f [Hf [Htag [Hw Hty]]]].
        destruct (tp_fits _ _ _ Hs He) as [Hsz Hfit].
        rewrite forallb_forall in Hwf. apply Hwf in Hf. apply wf_field_inv in Hf.
        destruct Hf as [_ [Hlt _]]. rewrite Hw in Hlt, Hty.
        unfold enc_tag_entry. unfold payload_fits in Hfit.
        destruct (codec_total _ _ Hlt Hty Hsz) as [pay Hpay]. rewrite Hpay in *.
        cbn [rbind]. apply Z.leb_le in Hfit.
        rewrite write_len_compact_ok by (unfold zlen in *; lia). cbn [rbind]. eauto. }
      cbn [rbind]. rewrite write_len_compact_ok; [cbn [rbind]; eauto|].
      unfold zlen in *. rewrite (Permutation_length Hperm). lia.
    - cbn [negb andb]. rewrite (wf_no_tags _ Hwf).
      destruct (regular_total false _ _ Hwf Ht Hs) as [r ->]. cbn [rbind]. eauto.
  Qed.
End TotalLevel.

Theorem class_total E ec : wf_env E = true -> forall r i, (i < r)%nat -> forall v,
  typed_class E ec r i v = true -> sized_class (map writer_plan E) r i v = true ->
  exists bs, enc_class (map writer_plan E) r i v = Ok bs.
Proof.
  intros Hwf. induction r as [|r IH]; intros i Hi v Ht Hs; [lia|].
  cbn [typed_class enc_class sized_class] in *. rewrite nth_error_map in *.
  destruct (nth_error E i) as [c|] eqn:Ei; [|discriminate]. cbn [option_map] in *.
  eapply (entity_total E ec (enc_class (map writer_plan E) r) (typed_class E ec r)
            (sized_class (map writer_plan E) r) i); eauto.
  - intros j v' Hj. apply IH. lia.
  - eapply wf_env_nth; eauto.
Qed.

(* encode_total under the explicit size hypothesis *)
Theorem encode_total : forall E ec, wf_env E = true -> forall i v,
  typed E ec i v = true -> sizes_ok (map writer_plan E) i v = true ->
  exists bs, encode (map writer_plan E) i v = Ok bs.
Proof.
  intros E ec Hwf i v Ht Hs. unfold typed, sizes_ok, encode in *. eapply class_total; eauto.
Qed.
Print Assumptions encode_total.

(* the size hypothesis is also necessary: whenever the encoder succeeds, sizes_ok holds (for any
   environment and value).  With encode_total: on well-formed environments and typed values the
   encoder succeeds exactly when sizes_ok holds. *)
Lemma rconcat_ok_all {A} (enc : A -> res (list Z)) : forall xs bs,
  rconcat (map enc xs) = Ok bs -> forall x, In x xs -> exists b, enc x = Ok b.
Proof.
  induction xs as [|y xs IH]; intros bs H x Hx; [destruct Hx|].
  cbn [map] in H. apply rconcat_cons_inv in H. destruct H as [a [b [Ha [Hb _]]]].
  destruct Hx as [<-|Hx]; [eauto|]. eapply IH; eauto.
Qed.

Lemma has_tagged_false_tp : forall fs vs, has_tagged fs = false -> tagged_present fs vs = [].
Proof.
  induction fs as [|f fs IH]; intros vs H; destruct vs as [|v vs]; try reflexivity.
  unfold has_tagged in H. cbn [existsb] in H. apply orb_false_iff in H. destruct H as [H1 H2].
  cbn [tagged_present]. destruct (fp_tag f); [discriminate|]. apply IH. exact H2.
Qed.

Section SizedNecessary.
  Variable encc : nat -> value -> res (list Z).
  Variable szc : nat -> value -> bool.
  Hypothesis Hs : forall j v b, encc j v = Ok b -> szc j v = true.

  Lemma codec_sized : forall c v bs, enc_codec encc c v = Ok bs -> sized_codec szc c v = true.
  Proof.
    induction c as [p|j n|c w IH]; intros v bs H; cbn [enc_codec sized_codec] in *;
      [reflexivity| |].
    - destruct n.
      + destruct v; try reflexivity; rb H eb Heb; eapply Hs; eauto.
      + destruct v; try reflexivity; eapply Hs; eauto.
    - destruct v; try reflexivity. rb H p Hp. rb H b Hb. apply forallb_forall. intros x Hx.
      destruct (rconcat_ok_all _ _ _ Hb x Hx) as [y Hy]. eapply IH; eauto.
  Qed.

  Lemma fields_sized : forall fs vs r, enc_regular encc fs vs = Ok r ->
    (forall e, In e (tagged_present fs vs) -> exists b, enc_tag_entry encc e = Ok b) ->
    sized_fields encc szc fs vs = true.
  Proof.
    induction fs as [|f fs IH]; intros vs r H Hent; destruct vs as [|v vs]; try reflexivity.
    cbn [enc_regular tagged_present sized_fields] in *.
    destruct (fp_tag f) as [t|].
    - destruct (val_eqb v (fp_default f)); cbn [orb andb]; [eapply IH; eauto|].
      destruct (Hent _ (or_introl eq_refl)) as [b Hb]. unfold enc_tag_entry in Hb.
      cbn [fst snd] in Hb. rb Hb pay Hpay. rb Hb sz Hsz.
      rewrite (codec_sized _ _ _ Hpay). unfold payload_fits. rewrite Hpay.
      apply write_len_compact_inv in Hsz. destruct Hsz as [Hsz _].
      replace (zlen pay <=? uvarint_hi) with true
        by (symmetry; apply Z.leb_le; unfold uvarint_hi; lia).
      cbn [andb]. eapply IH; [exact H|]. intros e He. apply Hent. right. exact He.
    - rb H a Ha. rb H b Hb. rewrite (codec_sized _ _ _ Ha). cbn [andb]. eapply IH; eauto.
  Qed.

  Lemma entity_sized c v bs : enc_entity encc c v = Ok bs -> sized_entity encc szc c v = true.
  Proof.
    unfold enc_entity. intros H.
    destruct (negb (cp_flexible c) && has_tagged (cp_fields c)) eqn:Eg; [discriminate|].
    destruct v as [| | | | | | | | | |vs]; try reflexivity. cbn [sized_entity].
    rb H r Hr. destruct (cp_flexible c).
    - cbv zeta in H. rb H t Hent. rb H n Hn.
      pose proof (sort_by_tag_perm (tagged_present (cp_fields c) vs)) as Hperm.
      apply andb_true_iff. split.
      + eapply fields_sized; [exact Hr|]. intros e He.
        eapply rconcat_ok_all; [exact Hent|].
        eapply Permutation_in; [apply Permutation_sym; exact Hperm|exact He].
      + apply write_len_compact_inv in Hn. destruct Hn as [Hn _]. apply Z.leb_le.
        unfold zlen in *. rewrite (Permutation_length Hperm) in Hn. unfold uvarint_hi. lia.
    - cbn [negb andb] in Eg. rewrite (has_tagged_false_tp _ vs Eg) in *.
      apply andb_true_iff. split; [|reflexivity].
      eapply fields_sized; [exact Hr|]. rewrite (has_tagged_false_tp _ vs Eg). intros e [].
  Qed.
End SizedNecessary.

Lemma class_sized W : forall r i v bs, enc_class W r i v = Ok bs -> sized_class W r i v = true.
Proof.
  induction r as [|r IH]; intros i v bs H; [reflexivity|].
  cbn [enc_class sized_class] in *. destruct (nth_error W i) as [c|]; [|reflexivity].
  eapply entity_sized; [|exact H]. exact IH.
Qed.

Theorem encode_sizes_ok : forall W i v bs, encode W i v = Ok bs -> sizes_ok W i v = true.
Proof. intros W i v bs H. unfold encode, sizes_ok in *. eapply class_sized; eauto. Qed.
Print Assumptions encode_sizes_ok.

Corollary encode_total_iff : forall E ec, wf_env E = true -> forall i v,
  typed E ec i v = true ->
  ((exists bs, encode (map writer_plan E) i v = Ok bs) <-> sizes_ok (map writer_plan E) i v = true).
Proof.
  intros E ec Hwf i v Ht. split.
  - intros [bs H]. eapply encode_sizes_ok; eauto.
  - eapply encode_total; eauto.
Qed.
Print Assumptions encode_total_iff.

(* ------------------------------------------------------------------------------------------ *)
(* encode_total without the size hypothesis is false.  Counterexample (too large to be found by
   evaluation, so it is proved symbolically): a flexible class with one tagged compact-bytes
   field holding 2^35 - 2 bytes.  The value is typed (the blob's own length prefix, 2^35 - 1, is
   a valid uvarint), but the tagged payload is 5 + 2^35 - 2 bytes long and its size prefix is
   rejected by uvarint(...): entity_writer raises TypeError. *)
Definition cx_field : fplan2 :=
  {| f2_name := String.EmptyString; f2_r := CPrim (PBytes true false);
     f2_w := CPrim (PBytes true false); f2_tag := Some 0; f2_default := VNull |}.
Definition cx_env : list cplan2 :=
  [ {| c2_name := String.EmptyString; c2_flexible := true; c2_fields := [cx_field] |} ].

Lemma cx_env_wf : wf_env cx_env = true.
Proof. vm_compute. reflexivity. Qed.

Lemma cx_big ec big : bytes_ok big = true -> zlen big = 2 ^ 35 - 2 ->
  typed cx_env ec 0 (VEnt [VBytes big]) = true /\
  encode (map writer_plan cx_env) 0 (VEnt [VBytes big]) = Err EType.
Proof.
  intros Hb Hz. split.
  - unfold typed.
    cbn [typed_class nth_error cx_env typed_entity c2_fields typed_fields cx_field f2_tag
         f2_default f2_w val_eqb typed_codec typed_prim orb].
    rewrite Hb, Hz. reflexivity.
  - unfold encode. cbn [enc_class]. rewrite nth_error_map. cbn [nth_error cx_env option_map].
    rewrite enc_entity_unfold.
    cbn [c2_flexible c2_fields negb andb map wr cx_field f2_name f2_w f2_tag f2_default
         enc_regular fp_tag fp_default fp_codec tagged_present val_eqb rbind
         sort_by_tag insert_by_tag rconcat enc_tag_entry fst snd enc_codec enc_prim
         write_string_like blob_of].
    unfold enc_tag_entry. cbn [fst snd enc_codec enc_prim write_string_like blob_of].
    unfold write_compact_blob. rewrite Hz.
    rewrite write_len_compact_ok by (unfold uvarint_hi; lia). cbn [rbind].
    replace (write_len_compact (zlen (uvarint_bytes (2 ^ 35 - 2 + 1) ++ big))) with (@Err (list Z) EType);
      [reflexivity|].
    unfold write_len_compact.
    replace (zlen (uvarint_bytes (2 ^ 35 - 2 + 1) ++ big) <=? uvarint_hi) with false;
      [rewrite andb_false_r; reflexivity|].
    symmetry. apply Z.leb_gt. unfold zlen in *. rewrite app_length, Nat2Z.inj_add, Hz.
    rewrite uvarint_minimal_length by lia.
    replace (Z.log2 (2 ^ 35 - 2 + 1) / 7 + 1) with 5 by (vm_compute; reflexivity).
    unfold uvarint_hi. lia.
Qed.

Lemma bytes_ok_repeat0 n : bytes_ok (repeat 0 n) = true.
Proof. induction n as [|n IH]; [reflexivity|]. cbn [repeat]. unfold bytes_ok in *. cbn [forallb]. rewrite IH. reflexivity. Qed.

Theorem encode_total_needs_sizes : exists E ec i v,
  wf_env E = true /\ typed E ec i v = true /\ encode (map writer_plan E) i v = Err EType.
Proof.
  exists cx_env, [], 0%nat, (VEnt [VBytes (repeat 0 (Z.to_nat (2 ^ 35 - 2)))]).
  split; [exact cx_env_wf|].
  apply cx_big; [apply bytes_ok_repeat0|].
  unfold zlen. rewrite repeat_length. apply Z2Nat.id. apply Z.leb_le. reflexivity.
Qed.
Print Assumptions encode_total_needs_sizes.
