(* Values of entity fields and the resolved codec plans.  Definitions only. *)
From Coq Require Import ZArith List Bool String.
From KioV Require Import Base.Res.
Import ListNotations.
Open Scope Z_scope.

Inductive value :=
| VNull
| VBool (b : bool)
| VInt (z : Z)
| VF64 (bits : Z)                 (* IEEE-754 binary64 bit pattern, 0 <= bits < 2^64 *)
| VStr (utf8 : list Z)            (* a str, as its UTF-8 bytes *)
| VBytes (b : list Z)
| VUuid (b16 : list Z)
| VDur (micros : Z)               (* datetime.timedelta *)
| VTime (micros : Z)              (* aware datetime.datetime, as an instant *)
| VArr (items : list value)       (* tuple *)
| VEnt (fields : list value).     (* entity instance: field values in declaration order *)

Fixpoint val_eqb (a b : value) {struct a} : bool :=
  match a, b with
  | VNull, VNull => true
  | VBool x, VBool y => Bool.eqb x y
  | VInt x, VInt y => x =? y
  | VF64 x, VF64 y => x =? y
  | VStr x, VStr y | VBytes x, VBytes y | VUuid x, VUuid y => zlist_eqb x y
  | VDur x, VDur y | VTime x, VTime y => x =? y
  | VArr x, VArr y | VEnt x, VEnt y =>
      (fix go (l1 l2 : list value) : bool :=
         match l1, l2 with
         | [], [] => true
         | p :: l1', q :: l2' => val_eqb p q && go l1' l2'
         | _, _ => false
         end) x y
  | _, _ => false
  end.

(* primitive codecs: which reader/writer function a field is bound to *)
Inductive pcodec :=
| PInt (w : nat) (signed : bool)
| PF64 | PBool | PErrorCode
| PStr (compact nullable : bool)
| PBytes (compact nullable : bool)
| PUuid
| PTd32 | PTd64
| PDt (nullable : bool).

Inductive codec :=
| CPrim (p : pcodec)
| CEnt (cls : nat) (nullable : bool)
| CArr (compact : bool) (item : codec).

Record fplan := { fp_name : string; fp_codec : codec; fp_tag : option Z; fp_default : value }.
Record cplan := { cp_name : string; cp_flexible : bool; cp_fields : list fplan }.
Definition penv := list cplan.

Definition has_tagged (fs : list fplan) : bool :=
  existsb (fun f => match fp_tag f with Some _ => true | None => false end) fs.

Definition pcodec_eqb (a b : pcodec) : bool :=
  match a, b with
  | PInt w s, PInt w' s' => Nat.eqb w w' && Bool.eqb s s'
  | PF64, PF64 | PBool, PBool | PErrorCode, PErrorCode | PUuid, PUuid
  | PTd32, PTd32 | PTd64, PTd64 => true
  | PStr c n, PStr c' n' | PBytes c n, PBytes c' n' => Bool.eqb c c' && Bool.eqb n n'
  | PDt n, PDt n' => Bool.eqb n n'
  | _, _ => false
  end.
Fixpoint codec_eqb (a b : codec) : bool :=
  match a, b with
  | CPrim p, CPrim q => pcodec_eqb p q
  | CEnt i n, CEnt j m => Nat.eqb i j && Bool.eqb n m
  | CArr c x, CArr d y => Bool.eqb c d && codec_eqb x y
  | _, _ => false
  end.
