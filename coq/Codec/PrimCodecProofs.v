(* Theorems about the primitive codecs (Codec/PrimCodec.v): round trip, totality of the writers
   on well-typed values, shape of the output, typing of what the readers return, the errors a
   reader may report, and the writer/reader codec relation psub. *)
From Coq Require Import ZArith List Bool Lia.
From KioV Require Import Base.Res Base.Prog Base.ProgProofs
  Prim.Bytes Prim.Varint Prim.Utf8 Prim.Time Prim.BytesProofs Prim.VarintProofs
  Codec.Value Codec.PrimCodec.
Import ListNotations.
Open Scope Z_scope.


(* ------------------------------------------------------------------------------------------ *)
(* boolean tests to propositions *)
Ltac b2p :=
  repeat match goal with
  | H : _ && _ = true |- _ => apply andb_true_iff in H; destruct H
  | H : _ || _ = false |- _ => apply orb_false_iff in H; destruct H
  | H : _ && _ = false |- _ => apply andb_false_iff in H; destruct H
  | H : _ || _ = true |- _ => apply orb_true_iff in H; destruct H
  | H : negb _ = true |- _ => apply negb_true_iff in H
  | H : negb _ = false |- _ => apply negb_false_iff in H
  | H : (_ <=? _) = true |- _ => apply Z.leb_le in H
  | H : (_ <=? _) = false |- _ => apply Z.leb_gt in H
  | H : (_ <? _) = true |- _ => apply Z.ltb_lt in H
  | H : (_ <? _) = false |- _ => apply Z.ltb_ge in H
  | H : (_ =? _) = true |- _ => apply Z.eqb_eq in H
  | H : (_ =? _) = false |- _ => apply Z.eqb_neq in H
  end.

(* ------------------------------------------------------------------------------------------ *)
(* byte strings *)
Lemma bytes_ok_app a b : bytes_ok (a ++ b) = bytes_ok a && bytes_ok b.
Proof. apply forallb_app. Qed.

Lemma bytes_ok_firstn n l : bytes_ok l = true -> bytes_ok (firstn n l) = true.
Proof.
  intros H. rewrite <- (firstn_skipn n l), bytes_ok_app in H.
  apply andb_true_iff in H. tauto.
Qed.

Lemma bytes_ok_skipn n l : bytes_ok l = true -> bytes_ok (skipn n l) = true.
Proof.
  intros H. rewrite <- (firstn_skipn n l), bytes_ok_app in H.
  apply andb_true_iff in H. tauto.
Qed.

Lemma run_rest_ok {A} (p : prog A) bs a r :
  bytes_ok bs = true -> run p bs = Ok (a, r) -> bytes_ok r = true.
Proof.
  intros Hb H. apply run_suffix in H. destruct H as [c ->].
  rewrite bytes_ok_app in Hb. apply andb_true_iff in Hb. tauto.
Qed.

Lemma firstn_zlen {A} n (l : list A) : 0 <= n <= zlen l -> zlen (firstn (Z.to_nat n) l) = n.
Proof. unfold zlen. intros H. rewrite firstn_length. lia. Qed.

(* ------------------------------------------------------------------------------------------ *)
(* the one effect *)
Lemma run_read_ok {A} n (k : list Z -> prog A) bs x :
  run (Read n k) bs = Ok x ->
  0 <= n /\ n <= zlen bs /\
  run (k (firstn (Z.to_nat n) bs)) (skipn (Z.to_nat n) bs) = Ok x.
Proof.
  cbn [run]. destruct ((n <? 0) || (Z.of_nat (length bs) <? n)) eqn:E; [discriminate|].
  b2p. unfold zlen. auto.
Qed.

Lemma run_read_err {A} n (k : list Z -> prog A) bs e :
  run (Read n k) bs = Err e ->
  e = EUnderflow \/ run (k (firstn (Z.to_nat n) bs)) (skipn (Z.to_nat n) bs) = Err e.
Proof.
  cbn [run]. destruct ((n <? 0) || (Z.of_nat (length bs) <? n)); intros H; [left; congruence|].
  right. exact H.
Qed.

(* ------------------------------------------------------------------------------------------ *)
(* fixed-width integers *)
Lemma write_int_ok w s z :
  in_int_range w s z = true -> write_int w s z = Ok (be_bytes w (z mod 2 ^ (8 * Z.of_nat w))).
Proof. unfold write_int. intros ->. reflexivity. Qed.

Lemma write_int_bytes_ok w s z bs : write_int w s z = Ok bs -> bytes_ok bs = true.
Proof.
  unfold write_int. destruct (in_int_range w s z); [|discriminate].
  intros H. assert (bs = be_bytes w (z mod 2 ^ (8 * Z.of_nat w))) as -> by congruence.
  apply be_bytes_bytes_ok.
Qed.

(* the round trip also holds at the degenerate width 0 (only 0, unsigned, is in range) *)
Lemma read_write_int_any w s z bs tl :
  write_int w s z = Ok bs -> run (read_int w s) (bs ++ tl) = Ok (z, tl).
Proof.
  destruct w as [|w].
  - unfold write_int. destruct (in_int_range 0 s z) eqn:E; [|discriminate].
    intros H. assert (bs = []) as -> by (cbn [be_bytes] in H; congruence).
    apply in_int_range_spec in E.
    destruct s; cbv [int_lo int_hi] in E; change (8 * Z.of_nat 0 - 1) with (-1) in E;
      change (8 * Z.of_nat 0) with 0 in E; cbn in E; [lia|].
    assert (z = 0) as -> by lia. unfold read_int. rewrite run_read_app by reflexivity.
    reflexivity.
  - apply read_write_int. lia.
Qed.

Lemma run_read_int_err w s bs e : run (read_int w s) bs = Err e -> e = EUnderflow.
Proof.
  unfold read_int. intros H. apply run_read_err in H.
  destruct H as [H|H]; [exact H|]. cbn [run] in H. discriminate.
Qed.

Lemma range_s2 z : in_int_range 2 true z = true <-> -32768 <= z <= 32767.
Proof.
  rewrite in_int_range_spec. cbv [int_lo int_hi].
  change (8 * Z.of_nat 2 - 1) with 15. lia.
Qed.
Lemma range_s4 z : in_int_range 4 true z = true <-> -2147483648 <= z <= 2147483647.
Proof.
  rewrite in_int_range_spec. cbv [int_lo int_hi].
  change (8 * Z.of_nat 4 - 1) with 31. lia.
Qed.
Lemma range_s8 z :
  in_int_range 8 true z = true <-> -9223372036854775808 <= z <= 9223372036854775807.
Proof.
  rewrite in_int_range_spec. cbv [int_lo int_hi].
  change (8 * Z.of_nat 8 - 1) with 63. lia.
Qed.
Lemma range_u8 z : in_int_range 8 false z = true <-> 0 <= z < 2 ^ 64.
Proof.
  rewrite in_int_range_spec. cbv [int_lo int_hi].
  change (8 * Z.of_nat 8) with 64. lia.
Qed.

(* ------------------------------------------------------------------------------------------ *)
(* unsigned varints: what the reader returns fits the number of bytes it may consume, whatever
   the input is (only the low 7 bits of each byte are used) *)
Lemma lor_bound a b k : 0 <= a < 2 ^ k -> 0 <= b < 2 ^ k -> 0 <= Z.lor a b < 2 ^ k.
Proof.
  intros Ha Hb. split; [apply Z.lor_nonneg; lia|].
  destruct (Z.eqb_spec a 0) as [->|Na]; [rewrite Z.lor_0_l; lia|].
  destruct (Z.eqb_spec b 0) as [->|Nb]; [rewrite Z.lor_0_r; lia|].
  assert (Z.lor a b <> 0) by (rewrite Z.lor_eq_0_iff; lia).
  assert (0 <= Z.lor a b) by (apply Z.lor_nonneg; lia).
  apply Z.log2_lt_pow2; [lia|].
  rewrite Z.log2_lor by lia.
  apply Z.max_lub_lt; apply Z.log2_lt_pow2; lia.
Qed.

Lemma read_uvarint_aux_bound : forall n shift acc bs z r,
  0 <= shift -> 0 <= acc < 2 ^ shift ->
  run (read_uvarint_aux n shift acc) bs = Ok (z, r) ->
  0 <= z < 2 ^ (shift + 7 * Z.of_nat n).
Proof.
  induction n as [|n IH]; intros shift acc bs z r Hs Ha H; cbn [read_uvarint_aux] in H.
  - cbn [run] in H. discriminate.
  - apply run_read_ok in H. destruct H as (_ & _ & H). cbv beta zeta in H.
    set (x := hd 0 (firstn (Z.to_nat 1) bs)) in *.
    set (acc' := Z.lor acc (Z.shiftl (Z.land x 127) shift)) in *.
    assert (Hacc': 0 <= acc' < 2 ^ (shift + 7)).
    { assert (Hp: 2 ^ (shift + 7) = 2 ^ shift * 128) by (rewrite Z.pow_add_r by lia; reflexivity).
      assert (0 < 2 ^ shift) by (apply Z.pow_pos_nonneg; lia).
      unfold acc'. apply lor_bound; [lia|].
      rewrite Z.shiftl_mul_pow2 by lia. rewrite land127.
      pose proof (Z.mod_pos_bound x 128 ltac:(lia)). nia. }
    destruct (Z.land x 128 =? 0).
    + cbn [run] in H. assert (z = acc') as -> by congruence.
      split; [lia|]. eapply Z.lt_le_trans; [apply Hacc'|]. apply Z.pow_le_mono_r; lia.
    + apply IH in H; try lia.
      replace (shift + 7 * Z.of_nat (S n)) with (shift + 7 + 7 * Z.of_nat n) by lia. exact H.
Qed.

Lemma read_uvarint_bound bs z r : run read_uvarint bs = Ok (z, r) -> 0 <= z < 2 ^ 35.
Proof.
  intros H. apply read_uvarint_aux_bound in H; [|lia|cbn; lia].
  change (0 + 7 * Z.of_nat 5) with 35 in H. exact H.
Qed.

Lemma read_uvarint_aux_err : forall n shift acc bs e,
  run (read_uvarint_aux n shift acc) bs = Err e -> permitted e = true.
Proof.
  induction n as [|n IH]; intros shift acc bs e H; cbn [read_uvarint_aux] in H.
  - cbn [run] in H. assert (e = EValue) as -> by congruence. reflexivity.
  - apply run_read_err in H. destruct H as [->|H]; [reflexivity|]. cbv beta zeta in H.
    destruct (Z.land _ 128 =? 0); [cbn [run] in H; discriminate|]. eapply IH. exact H.
Qed.

Lemma read_uvarint_null tl : run read_uvarint (0 :: tl) = Ok (0, tl).
Proof. exact (read_write_uvarint 0 tl ltac:(lia)). Qed.

(* ------------------------------------------------------------------------------------------ *)
(* the four blob readers share two shapes *)
Definition null_or (nullable : bool) : prog value :=
  if nullable then Ret VNull else Fail EUnexpectedNull.
Definition read_compact_gen (nullable : bool) (k : list Z -> prog value) : prog value :=
  len <- read_compact_len ;; if len =? -1 then null_or nullable else Read len k.
Definition read_legacy_gen (w : nat) (nullable : bool) (k : list Z -> prog value) : prog value :=
  len <- read_int w true ;; if len =? -1 then null_or nullable else Read len k.
Definition k_bytes (b : list Z) : prog value := Ret (VBytes b).

Lemma dec_str_compact ec n : dec_prim ec (PStr true n) = read_compact_gen n decode_str.
Proof. reflexivity. Qed.
Lemma dec_str_legacy ec n : dec_prim ec (PStr false n) = read_legacy_gen 2 n decode_str.
Proof. reflexivity. Qed.
Lemma dec_bytes_compact ec n : dec_prim ec (PBytes true n) = read_compact_gen n k_bytes.
Proof. reflexivity. Qed.
Lemma dec_bytes_legacy ec n : dec_prim ec (PBytes false n) = read_legacy_gen 4 n k_bytes.
Proof. reflexivity. Qed.

Lemma zlen_neq_m1 {A} (b : list A) : (zlen b =? -1) = false.
Proof. apply Z.eqb_neq. unfold zlen. lia. Qed.

Lemma compact_gen_blob n k b bs tl :
  write_compact_blob b = Ok bs -> run (read_compact_gen n k) (bs ++ tl) = run (k b) tl.
Proof.
  unfold write_compact_blob, write_len_compact. intros H.
  destruct ((0 <=? zlen b + 1) && (zlen b + 1 <=? uvarint_hi)) eqn:E; cbn [rbind] in H;
    [|discriminate].
  assert (bs = uvarint_bytes (zlen b + 1) ++ b) as -> by congruence.
  unfold uvarint_hi in E. b2p.
  unfold read_compact_gen, read_compact_len. rewrite <- app_assoc, !run_bind.
  rewrite read_write_uvarint by lia. cbn [run].
  replace (zlen b + 1 - 1) with (zlen b) by lia. rewrite zlen_neq_m1.
  apply run_read_app. reflexivity.
Qed.

Lemma compact_gen_null k tl : run (read_compact_gen true k) (0 :: tl) = Ok (VNull, tl).
Proof.
  unfold read_compact_gen, read_compact_len. rewrite !run_bind, read_uvarint_null. reflexivity.
Qed.

Lemma legacy_gen_blob w n k b bs tl :
  write_legacy_blob w b = Ok bs -> run (read_legacy_gen w n k) (bs ++ tl) = run (k b) tl.
Proof.
  unfold write_legacy_blob. intros H.
  destruct (in_int_range w true (zlen b)); [|discriminate].
  destruct (write_int w true (zlen b)) as [p|] eqn:Ew; cbn [rbind] in H; [|discriminate].
  assert (bs = p ++ b) as -> by congruence.
  unfold read_legacy_gen. rewrite <- app_assoc, run_bind, (read_write_int_any _ _ _ _ _ Ew).
  rewrite zlen_neq_m1. apply run_read_app. reflexivity.
Qed.

Lemma legacy_gen_null w k bs tl :
  write_int w true (-1) = Ok bs -> run (read_legacy_gen w true k) (bs ++ tl) = Ok (VNull, tl).
Proof.
  intros H. unfold read_legacy_gen. rewrite run_bind, (read_write_int_any _ _ _ _ _ H).
  reflexivity.
Qed.

(* ------------------------------------------------------------------------------------------ *)
(* psub *)
Lemma pcodec_eqb_eq a b : pcodec_eqb a b = true -> a = b.
Proof.
  destruct a, b; cbn [pcodec_eqb]; intros H; try discriminate; try reflexivity;
  repeat match goal with
  | H : _ && _ = true |- _ => apply andb_true_iff in H; destruct H
  | H : Nat.eqb _ _ = true |- _ => apply Nat.eqb_eq in H; subst
  | H : Bool.eqb _ _ = true |- _ => apply Bool.eqb_prop in H; subst
  end; reflexivity.
Qed.

Lemma psub_inv w r : psub w r = true ->
  w = r \/ (exists c, w = PStr c false /\ r = PStr c true)
        \/ (exists c, w = PBytes c false /\ r = PBytes c true)
        \/ (w = PDt false /\ r = PDt true).
Proof.
  unfold psub. intros H. apply orb_true_iff in H. destruct H as [H|H].
  - left. apply pcodec_eqb_eq. exact H.
  - right.
    destruct w as [ww ws| | | |wc wn|wc wn| | | |wn]; try discriminate H;
    destruct r as [rw rs| | | |rc rn|rc rn| | | |rn]; try (destruct wn; discriminate H).
    + destruct wn, rn; try discriminate H. apply Bool.eqb_prop in H. subst.
      left. eexists. split; reflexivity.
    + destruct wn, rn; try discriminate H. apply Bool.eqb_prop in H. subst.
      right. left. eexists. split; reflexivity.
    + destruct wn, rn; try discriminate H. right. right. split; reflexivity.
Qed.

Theorem prim_typed_sub : forall ec w r v,
  psub w r = true -> typed_prim ec r v = true -> typed_prim ec w v = true \/ v = VNull.
Proof.
  intros ec w r v Hs Ht. apply psub_inv in Hs.
  destruct Hs as [->|[[c [-> ->]]|[[c [-> ->]]|[-> ->]]]]; [left; exact Ht| | |];
  destruct v; cbn [typed_prim] in *; try discriminate; auto.
Qed.
Print Assumptions prim_typed_sub.

(* a value typed for the writer codec is typed for the reader codec, and written identically by
   the reader codec's writer *)
Lemma psub_lift ec w r v : psub w r = true -> typed_prim ec w v = true ->
  typed_prim ec r v = true /\ enc_prim r v = enc_prim w v.
Proof.
  intros Hs Ht. apply psub_inv in Hs.
  destruct Hs as [->|[[c [-> ->]]|[[c [-> ->]]|[-> ->]]]]; [split; [exact Ht|reflexivity]| | |];
  destruct v; cbn [typed_prim] in Ht; try discriminate Ht; split; try exact Ht; reflexivity.
Qed.

(* ------------------------------------------------------------------------------------------ *)
(* time *)
Lemma rhe_exact us : us mod 1000 = 0 -> round_half_even_1000 us = us / 1000.
Proof. unfold round_half_even_1000. intros ->. reflexivity. Qed.

Lemma millis_exact us : us mod 1000 = 0 -> us / 1000 * 1000 = us.
Proof. intros H. pose proof (Z.div_mod us 1000 ltac:(lia)). lia. Qed.

(* ------------------------------------------------------------------------------------------ *)
(* round trip *)
Lemma prim_roundtrip_same ec w v bs tl :
  typed_prim ec w v = true -> enc_prim w v = Ok bs ->
  run (dec_prim ec w) (bs ++ tl) = Ok (v, tl).
Proof.
  intros Ht He.
  destruct w as [w s| | | |c n|c n| | | |n]; destruct v;
    cbn [typed_prim] in Ht; try discriminate Ht; cbn [enc_prim] in He.
  - (* PInt *)
    cbn [dec_prim]. rewrite run_bind, (read_write_int_any _ _ _ _ _ He). reflexivity.
  - (* PF64 *)
    cbn [dec_prim]. unfold read_float64.
    rewrite run_bind, (read_write_int_any _ _ _ _ _ He). reflexivity.
  - (* PBool *)
    assert (bs = [if b then 1 else 0]) as -> by congruence.
    cbn [dec_prim app]. unfold read_boolean. rewrite run_read1. destruct b; reflexivity.
  - (* PErrorCode *)
    cbn [dec_prim]. unfold read_error_code.
    rewrite run_bind, (read_write_int_any _ _ _ _ _ He).
    apply andb_true_iff in Ht. destruct Ht as [Hk _]. rewrite Hk. reflexivity.
  - (* PStr, null *)
    subst n. cbn [write_string_like] in He. destruct c.
    + assert (bs = [0]) as -> by congruence. rewrite dec_str_compact. apply compact_gen_null.
    + rewrite dec_str_legacy. apply legacy_gen_null. exact He.
  - (* PStr, str *)
    cbn [write_string_like blob_of] in He.
    apply andb_true_iff in Ht. destruct Ht as [Ht _].
    apply andb_true_iff in Ht. destruct Ht as [_ Hu].
    destruct c.
    + rewrite dec_str_compact, (compact_gen_blob _ _ _ _ _ He). unfold decode_str.
      rewrite Hu. reflexivity.
    + rewrite dec_str_legacy, (legacy_gen_blob _ _ _ _ _ _ He). unfold decode_str.
      rewrite Hu. reflexivity.
  - (* PBytes, null *)
    subst n. cbn [write_string_like] in He. destruct c.
    + assert (bs = [0]) as -> by congruence. rewrite dec_bytes_compact. apply compact_gen_null.
    + rewrite dec_bytes_legacy. apply legacy_gen_null. exact He.
  - (* PBytes, bytes *)
    cbn [write_string_like blob_of] in He. destruct c.
    + rewrite dec_bytes_compact, (compact_gen_blob _ _ _ _ _ He). reflexivity.
    + rewrite dec_bytes_legacy, (legacy_gen_blob _ _ _ _ _ _ He). reflexivity.
  - (* PUuid, null *)
    assert (bs = repeat 0 16) as -> by congruence.
    cbn [dec_prim]. unfold read_uuid. rewrite run_read_app by reflexivity. reflexivity.
  - (* PUuid, uuid *)
    assert (bs = b16) as -> by congruence. b2p.
    cbn [dec_prim]. unfold read_uuid. rewrite run_read_app by (unfold zlen in *; lia).
    cbn [run]. rewrite H0. reflexivity.
  - (* PTd32 *)
    cbn [write_timedelta] in He. b2p. rewrite rhe_exact in He by assumption.
    apply range_s4 in H0.
    cbn [dec_prim]. unfold read_timedelta.
    rewrite run_bind, (read_write_int_any _ _ _ _ _ He), run_bind, run_lift.
    unfold td_of_millis. cbv zeta. rewrite millis_exact by assumption.
    destruct ((td_min_us <=? micros) && (micros <=? td_max_us)) eqn:E; [reflexivity|].
    exfalso. pose proof (millis_exact micros H).
    unfold td_min_us, td_max_us in *. b2p; lia.
  - (* PTd64 *)
    cbn [write_timedelta] in He. b2p. rewrite rhe_exact in He by assumption.
    cbn [dec_prim]. unfold read_timedelta.
    rewrite run_bind, (read_write_int_any _ _ _ _ _ He), run_bind, run_lift.
    unfold td_of_millis. cbv zeta. rewrite millis_exact by assumption.
    destruct ((td_min_us <=? micros) && (micros <=? td_max_us)) eqn:E; [reflexivity|].
    exfalso. b2p; lia.
  - (* PDt, null *)
    subst n. cbn [write_datetime] in He.
    cbn [dec_prim]. unfold read_datetime.
    rewrite run_bind, (read_write_int_any _ _ _ _ _ He). reflexivity.
  - (* PDt, time *)
    cbn [write_datetime] in He. b2p. rewrite rhe_exact in He by assumption.
    pose proof (millis_exact micros H) as Hm.
    cbn [dec_prim]. unfold read_datetime.
    rewrite run_bind, (read_write_int_any _ _ _ _ _ He).
    destruct (n && (micros / 1000 =? -1)) eqn:E1; [exfalso; b2p; lia|].
    rewrite run_bind, run_lift. unfold tz_aware_from_millis. cbv zeta. rewrite Hm.
    destruct ((micros <? dt_min_us) || (dt_max_us <? micros)) eqn:E2;
      [exfalso; unfold dt_min_us, dt_max_us in *; b2p; lia|].
    destruct (micros <? 0) eqn:E3; [exfalso; b2p; lia|]. reflexivity.
Qed.

Theorem prim_roundtrip : forall ec w r v bs tl,
  psub w r = true -> typed_prim ec w v = true -> enc_prim w v = Ok bs ->
  run (dec_prim ec r) (bs ++ tl) = Ok (v, tl).
Proof.
  intros ec w r v bs tl Hs Ht He.
  destruct (psub_lift ec w r v Hs Ht) as [Ht' He'].
  apply prim_roundtrip_same; [exact Ht'|]. rewrite He'. exact He.
Qed.
Print Assumptions prim_roundtrip.

(* ------------------------------------------------------------------------------------------ *)
(* the writers are total on well-typed values *)
Lemma write_int_total w s z : in_int_range w s z = true -> exists bs, write_int w s z = Ok bs.
Proof. intros H. eexists. apply write_int_ok. exact H. Qed.

Lemma write_compact_blob_total (b : list Z) :
  zlen b + 1 <= uvarint_hi -> exists bs, write_compact_blob b = Ok bs.
Proof.
  intros H. unfold write_compact_blob, write_len_compact.
  replace ((0 <=? zlen b + 1) && (zlen b + 1 <=? uvarint_hi)) with true.
  - cbn [rbind]. eexists. reflexivity.
  - symmetry. apply andb_true_iff. split; apply Z.leb_le; [unfold zlen; lia|exact H].
Qed.

Lemma write_legacy_blob_total w (b : list Z) :
  in_int_range w true (zlen b) = true -> exists bs, write_legacy_blob w b = Ok bs.
Proof.
  intros H. unfold write_legacy_blob. rewrite H, (write_int_ok _ _ _ H). cbn [rbind].
  eexists. reflexivity.
Qed.

Theorem prim_enc_total : forall ec w v,
  typed_prim ec w v = true -> exists bs, enc_prim w v = Ok bs.
Proof.
  intros ec w v Ht.
  destruct w as [w s| | | |c n|c n| | | |n]; destruct v;
    cbn [typed_prim] in Ht; try discriminate Ht; cbn [enc_prim].
  - apply write_int_total. exact Ht.
  - apply write_int_total. apply range_u8. b2p. lia.
  - eexists. reflexivity.
  - b2p. apply write_int_total. assumption.
  - subst n. cbn [write_string_like]. destruct c; [eexists; reflexivity|].
    apply write_int_total. reflexivity.
  - cbn [write_string_like blob_of]. b2p. destruct c.
    + apply write_compact_blob_total. b2p. assumption.
    + apply write_legacy_blob_total. apply range_s2. b2p. unfold zlen in *. lia.
  - subst n. cbn [write_string_like]. destruct c; [eexists; reflexivity|].
    apply write_int_total. reflexivity.
  - cbn [write_string_like blob_of]. b2p. destruct c.
    + apply write_compact_blob_total. b2p. assumption.
    + apply write_legacy_blob_total. apply range_s4. b2p. unfold zlen in *. lia.
  - eexists. reflexivity.
  - eexists. reflexivity.
  - cbn [write_timedelta]. b2p. rewrite rhe_exact by assumption.
    apply write_int_total. assumption.
  - cbn [write_timedelta]. b2p. rewrite rhe_exact by assumption.
    apply write_int_total. apply range_s8.
    pose proof (millis_exact micros H). unfold td_min_us, td_max_us in *. lia.
  - subst n. cbn [write_datetime]. apply write_int_total. reflexivity.
  - cbn [write_datetime]. b2p. rewrite rhe_exact by assumption.
    apply write_int_total. apply range_s8.
    pose proof (millis_exact micros H). unfold dt_max_us in *. lia.
Qed.
Print Assumptions prim_enc_total.

(* ------------------------------------------------------------------------------------------ *)
(* the output is never empty.
   FALSE as stated (no hypothesis on w and v), two counterexamples:
     enc_prim (PInt 0 false) (VInt 0) = Ok []      (width 0; excluded by pcodec_ok)
     enc_prim PUuid (VUuid [])        = Ok []      (write_uuid writes the 16 bytes it is given;
                                                    VUuid [] is not typed_prim, see below) *)
Example prim_enc_nonempty_cex_width0 : enc_prim (PInt 0 false) (VInt 0) = Ok [].
Proof. reflexivity. Qed.
Example prim_enc_nonempty_cex_uuid : enc_prim PUuid (VUuid []) = Ok [].
Proof. reflexivity. Qed.

Lemma write_string_like_nonempty c n w v bs : (0 < w)%nat ->
  write_string_like c n w v = Ok bs -> (1 <= length bs)%nat.
Proof.
  intros Hw H.
  destruct v; cbn [write_string_like blob_of] in H; try discriminate H.
  - destruct n; [|discriminate H]. destruct c.
    + assert (bs = [0]) as -> by congruence. cbn [length]. lia.
    + apply write_int_length in H. lia.
  - destruct c.
    + unfold write_compact_blob, write_len_compact in H.
      destruct ((0 <=? zlen utf8 + 1) && (zlen utf8 + 1 <=? uvarint_hi)); cbn [rbind] in H;
        [|discriminate H].
      assert (bs = uvarint_bytes (zlen utf8 + 1) ++ utf8) as -> by congruence.
      rewrite app_length. pose proof (uvarint_bytes_nonempty (zlen utf8 + 1)). lia.
    + unfold write_legacy_blob in H.
      destruct (in_int_range w true (zlen utf8)); [|discriminate H].
      destruct (write_int w true (zlen utf8)) as [p|] eqn:Ew; cbn [rbind] in H; [|discriminate H].
      assert (bs = p ++ utf8) as -> by congruence.
      rewrite app_length. apply write_int_length in Ew. lia.
  - destruct c.
    + unfold write_compact_blob, write_len_compact in H.
      destruct ((0 <=? zlen b + 1) && (zlen b + 1 <=? uvarint_hi)); cbn [rbind] in H;
        [|discriminate H].
      assert (bs = uvarint_bytes (zlen b + 1) ++ b) as -> by congruence.
      rewrite app_length. pose proof (uvarint_bytes_nonempty (zlen b + 1)). lia.
    + unfold write_legacy_blob in H.
      destruct (in_int_range w true (zlen b)); [|discriminate H].
      destruct (write_int w true (zlen b)) as [p|] eqn:Ew; cbn [rbind] in H; [|discriminate H].
      assert (bs = p ++ b) as -> by congruence.
      rewrite app_length. apply write_int_length in Ew. lia.
Qed.

(* strongest true variant: exactly the two counterexamples are excluded *)
Theorem prim_enc_nonempty_partial : forall w v bs,
  pcodec_ok w = true -> v <> VUuid [] ->
  enc_prim w v = Ok bs -> (1 <= length bs)%nat.
Proof.
  intros w v bs Hok Hv He.
  destruct w as [w s| | | |c n|c n| | | |n]; destruct v; cbn [enc_prim] in He;
    try discriminate He;
    try (eapply write_string_like_nonempty; [|exact He]; lia).
  - cbn [pcodec_ok] in Hok. apply Nat.ltb_lt in Hok. apply write_int_length in He. lia.
  - apply write_int_length in He. lia.
  - assert (bs = [if b then 1 else 0]) as -> by congruence. cbn [length]. lia.
  - apply write_int_length in He. lia.
  - assert (bs = repeat 0 16) as -> by congruence. rewrite repeat_length. lia.
  - assert (bs = b16) as -> by congruence.
    destruct b16; [contradiction Hv; reflexivity|cbn [length]; lia].
  - cbn [write_timedelta] in He. apply write_int_length in He. lia.
  - cbn [write_timedelta] in He. apply write_int_length in He. lia.
  - cbn [write_datetime] in He. destruct n; [|discriminate He].
    apply write_int_length in He. lia.
  - cbn [write_datetime] in He. apply write_int_length in He. lia.
Qed.
Print Assumptions prim_enc_nonempty_partial.

(* the form used downstream: well-typed values of codecs of positive width *)
Corollary prim_enc_nonempty_typed : forall ec w v bs,
  pcodec_ok w = true -> typed_prim ec w v = true ->
  enc_prim w v = Ok bs -> (1 <= length bs)%nat.
Proof.
  intros ec w v bs Hok Ht He. apply (prim_enc_nonempty_partial w v bs Hok); [|exact He].
  intros ->. destruct w; cbn [typed_prim] in Ht; discriminate Ht.
Qed.
Print Assumptions prim_enc_nonempty_typed.

(* ------------------------------------------------------------------------------------------ *)
(* the output is a byte string *)
Lemma write_blob_bytes_ok (c : bool) w (b bs : list Z) : bytes_ok b = true ->
  (if c then write_compact_blob b else write_legacy_blob w b) = Ok bs -> bytes_ok bs = true.
Proof.
  intros Hb H. destruct c.
  - unfold write_compact_blob, write_len_compact in H.
    destruct ((0 <=? zlen b + 1) && (zlen b + 1 <=? uvarint_hi)); cbn [rbind] in H;
      [|discriminate H].
    assert (bs = uvarint_bytes (zlen b + 1) ++ b) as -> by congruence.
    rewrite bytes_ok_app, uvarint_bytes_ok, Hb. reflexivity.
  - unfold write_legacy_blob in H.
    destruct (in_int_range w true (zlen b)); [|discriminate H].
    destruct (write_int w true (zlen b)) as [p|] eqn:Ew; cbn [rbind] in H; [|discriminate H].
    assert (bs = p ++ b) as -> by congruence.
    rewrite bytes_ok_app, (write_int_bytes_ok _ _ _ _ Ew), Hb. reflexivity.
Qed.

Lemma write_null_bytes_ok (c : bool) w bs :
  (if c then Ok [0] else write_int w true (-1)) = Ok bs -> bytes_ok bs = true.
Proof.
  destruct c; intros H.
  - assert (bs = [0]) as -> by congruence. reflexivity.
  - eapply write_int_bytes_ok. exact H.
Qed.

Theorem prim_enc_bytes_ok : forall ec w v bs,
  typed_prim ec w v = true -> enc_prim w v = Ok bs -> bytes_ok bs = true.
Proof.
  intros ec w v bs Ht He.
  destruct w as [w s| | | |c n|c n| | | |n]; destruct v;
    cbn [typed_prim] in Ht; try discriminate Ht; cbn [enc_prim] in He.
  - eapply write_int_bytes_ok. exact He.
  - eapply write_int_bytes_ok. exact He.
  - assert (bs = [if b then 1 else 0]) as -> by congruence. destruct b; reflexivity.
  - eapply write_int_bytes_ok. exact He.
  - subst n. cbn [write_string_like] in He. eapply write_null_bytes_ok. exact He.
  - cbn [write_string_like blob_of] in He. b2p.
    eapply write_blob_bytes_ok; [|exact He]. assumption.
  - subst n. cbn [write_string_like] in He. eapply write_null_bytes_ok. exact He.
  - cbn [write_string_like blob_of] in He. b2p.
    eapply write_blob_bytes_ok; [|exact He]. assumption.
  - assert (bs = repeat 0 16) as -> by congruence. reflexivity.
  - assert (bs = b16) as -> by congruence. b2p. assumption.
  - cbn [write_timedelta] in He. eapply write_int_bytes_ok. exact He.
  - cbn [write_timedelta] in He. eapply write_int_bytes_ok. exact He.
  - subst n. cbn [write_datetime] in He. eapply write_int_bytes_ok. exact He.
  - cbn [write_datetime] in He. eapply write_int_bytes_ok. exact He.
Qed.
Print Assumptions prim_enc_bytes_ok.

(* ------------------------------------------------------------------------------------------ *)
(* inversion of the blob readers *)
Lemma null_or_ok n bs v rest : run (null_or n) bs = Ok (v, rest) -> n = true /\ v = VNull.
Proof.
  destruct n; cbn [null_or run]; intros H; [|discriminate H]. split; congruence.
Qed.

Lemma null_or_err n bs e : run (null_or n) bs = Err e -> permitted e = true.
Proof.
  destruct n; cbn [null_or run]; intros H; [discriminate H|].
  assert (e = EUnexpectedNull) as -> by congruence. reflexivity.
Qed.

Lemma read_blob_inv {A} len (k : list Z -> prog A) bs (v : A) rest : bytes_ok bs = true ->
  run (Read len k) bs = Ok (v, rest) ->
  exists b r, bytes_ok b = true /\ zlen b = len /\ run (k b) r = Ok (v, rest).
Proof.
  intros Hb H. apply run_read_ok in H. destruct H as (H1 & H2 & H3).
  exists (firstn (Z.to_nat len) bs), (skipn (Z.to_nat len) bs).
  split; [apply bytes_ok_firstn; exact Hb|]. split; [apply firstn_zlen; lia|exact H3].
Qed.

Lemma compact_gen_inv n k bs v rest : bytes_ok bs = true ->
  run (read_compact_gen n k) bs = Ok (v, rest) ->
  (n = true /\ v = VNull) \/
  exists b r, bytes_ok b = true /\ zlen b + 1 <= uvarint_hi /\ run (k b) r = Ok (v, rest).
Proof.
  intros Hb H. unfold read_compact_gen, read_compact_len in H. rewrite !run_bind in H.
  destruct (run read_uvarint bs) as [[z r]|e] eqn:E; [|discriminate H]. cbn [run] in H.
  pose proof (read_uvarint_bound _ _ _ E) as Hz.
  pose proof (run_rest_ok _ _ _ _ Hb E) as Hr.
  destruct (z - 1 =? -1).
  - left. eapply null_or_ok. exact H.
  - right. apply read_blob_inv in H; [|exact Hr]. destruct H as (b & r' & H1 & H2 & H3).
    exists b, r'. split; [exact H1|]. split; [unfold uvarint_hi; lia|exact H3].
Qed.

Lemma legacy_gen_inv w n k bs v rest : (0 < w)%nat -> bytes_ok bs = true ->
  run (read_legacy_gen w n k) bs = Ok (v, rest) ->
  (n = true /\ v = VNull) \/
  exists b r, bytes_ok b = true /\ in_int_range w true (zlen b) = true /\
              run (k b) r = Ok (v, rest).
Proof.
  intros Hw Hb H. unfold read_legacy_gen in H. rewrite run_bind in H.
  destruct (run (read_int w true) bs) as [[z r]|e] eqn:E; [|discriminate H].
  pose proof (read_int_range _ _ _ _ _ Hw Hb E) as Hz.
  pose proof (run_rest_ok _ _ _ _ Hb E) as Hr.
  destruct (z =? -1).
  - left. eapply null_or_ok. exact H.
  - right. apply read_blob_inv in H; [|exact Hr]. destruct H as (b & r' & H1 & H2 & H3).
    exists b, r'. split; [exact H1|]. split; [rewrite H2; exact Hz|exact H3].
Qed.

Lemma compact_gen_err n k bs e :
  (forall b r e, run (k b) r = Err e -> permitted e = true) ->
  run (read_compact_gen n k) bs = Err e -> permitted e = true.
Proof.
  intros Hk H. unfold read_compact_gen, read_compact_len in H. rewrite !run_bind in H.
  destruct (run read_uvarint bs) as [[z r]|e'] eqn:E.
  - cbn [run] in H. destruct (z - 1 =? -1); [eapply null_or_err; exact H|].
    apply run_read_err in H. destruct H as [->|H]; [reflexivity|]. eapply Hk. exact H.
  - assert (e = e') as -> by congruence. eapply read_uvarint_aux_err. exact E.
Qed.

Lemma legacy_gen_err w n k bs e :
  (forall b r e, run (k b) r = Err e -> permitted e = true) ->
  run (read_legacy_gen w n k) bs = Err e -> permitted e = true.
Proof.
  intros Hk H. unfold read_legacy_gen in H. rewrite run_bind in H.
  destruct (run (read_int w true) bs) as [[z r]|e'] eqn:E.
  - destruct (z =? -1); [eapply null_or_err; exact H|].
    apply run_read_err in H. destruct H as [->|H]; [reflexivity|]. eapply Hk. exact H.
  - assert (e = e') as -> by congruence. apply run_read_int_err in E. subst. reflexivity.
Qed.

Lemma decode_str_ok b r v rest :
  run (decode_str b) r = Ok (v, rest) -> v = VStr b /\ utf8_valid b = true.
Proof.
  unfold decode_str. destruct (utf8_valid b); cbn [run]; intros H; [|discriminate H].
  split; congruence.
Qed.

Lemma decode_str_err b r e : run (decode_str b) r = Err e -> permitted e = true.
Proof.
  unfold decode_str. destruct (utf8_valid b); cbn [run]; intros H; [discriminate H|].
  assert (e = EValue) as -> by congruence. reflexivity.
Qed.

Lemma k_bytes_err b r e : run (k_bytes b) r = Err e -> permitted e = true.
Proof. unfold k_bytes. cbn [run]. discriminate. Qed.

(* ------------------------------------------------------------------------------------------ *)
(* what a primitive reader returns from a byte string is well-typed for that reader codec.
   Needs a positive width: run (dec_prim ec (PInt 0 true)) [] = Ok (VInt (-1), []) because
   to_signed 0 0 = -1, while in_int_range 0 true is empty. *)
Example prim_dec_typed_cex_width0 :
  run (dec_prim [] (PInt 0 true)) [] = Ok (VInt (-1), []) /\
  typed_prim [] (PInt 0 true) (VInt (-1)) = false.
Proof. split; reflexivity. Qed.

Theorem prim_dec_typed : forall ec r bs v rest,
  pcodec_ok r = true ->
  bytes_ok bs = true -> run (dec_prim ec r) bs = Ok (v, rest) -> typed_prim ec r v = true.
Proof.
  intros ec r bs v rest Hok Hb H.
  destruct r as [w s| | | |c n|c n| | | |n].
  - (* PInt *)
    cbn [pcodec_ok] in Hok. apply Nat.ltb_lt in Hok.
    cbn [dec_prim] in H. rewrite run_bind in H.
    destruct (run (read_int w s) bs) as [[z r]|e] eqn:E; [|discriminate H]. cbn [run] in H.
    assert (v = VInt z) as -> by congruence. cbn [typed_prim].
    eapply read_int_range; [exact Hok|exact Hb|exact E].
  - (* PF64 *)
    cbn [dec_prim] in H. unfold read_float64 in H. rewrite run_bind in H.
    destruct (run (read_int 8 false) bs) as [[z r]|e] eqn:E; [|discriminate H]. cbn [run] in H.
    assert (v = VF64 z) as -> by congruence. cbn [typed_prim].
    apply read_int_range in E; [|lia|exact Hb]. apply range_u8 in E.
    apply andb_true_iff. split; [apply Z.leb_le|apply Z.ltb_lt]; lia.
  - (* PBool *)
    cbn [dec_prim] in H. unfold read_boolean in H. apply run_read_ok in H.
    destruct H as (_ & _ & H). cbn [run] in H.
    match type of H with Ok (?x, _) = _ => assert (v = x) as -> by congruence end. reflexivity.
  - (* PErrorCode *)
    cbn [dec_prim] in H. unfold read_error_code in H. rewrite run_bind in H.
    destruct (run (read_int 2 true) bs) as [[z r]|e] eqn:E; [|discriminate H].
    destruct (known_error_code ec z) eqn:K; cbn [run] in H; [|discriminate H].
    assert (v = VInt z) as -> by congruence. cbn [typed_prim]. rewrite K.
    apply read_int_range in E; [|lia|exact Hb]. rewrite E. reflexivity.
  - (* PStr *)
    destruct c.
    + rewrite dec_str_compact in H. apply compact_gen_inv in H; [|exact Hb].
      destruct H as [[-> ->]|(b & r & H1 & H2 & H3)]; [reflexivity|].
      apply decode_str_ok in H3. destruct H3 as [-> H3]. cbn [typed_prim].
      rewrite H1, H3. apply Z.leb_le in H2. rewrite H2. reflexivity.
    + rewrite dec_str_legacy in H. apply legacy_gen_inv in H; [|lia|exact Hb].
      destruct H as [[-> ->]|(b & r & H1 & H2 & H3)]; [reflexivity|].
      apply decode_str_ok in H3. destruct H3 as [-> H3]. cbn [typed_prim].
      rewrite H1, H3. apply range_s2 in H2.
      replace (zlen b <=? 32767) with true by (symmetry; apply Z.leb_le; lia). reflexivity.
  - (* PBytes *)
    destruct c.
    + rewrite dec_bytes_compact in H. apply compact_gen_inv in H; [|exact Hb].
      destruct H as [[-> ->]|(b & r & H1 & H2 & H3)]; [reflexivity|].
      unfold k_bytes in H3. cbn [run] in H3. assert (v = VBytes b) as -> by congruence.
      cbn [typed_prim]. rewrite H1. apply Z.leb_le in H2. rewrite H2. reflexivity.
    + rewrite dec_bytes_legacy in H. apply legacy_gen_inv in H; [|lia|exact Hb].
      destruct H as [[-> ->]|(b & r & H1 & H2 & H3)]; [reflexivity|].
      unfold k_bytes in H3. cbn [run] in H3. assert (v = VBytes b) as -> by congruence.
      cbn [typed_prim]. rewrite H1. apply range_s4 in H2.
      replace (zlen b <=? 2147483647) with true by (symmetry; apply Z.leb_le; lia).
      reflexivity.
  - (* PUuid *)
    cbn [dec_prim] in H. unfold read_uuid in H. apply read_blob_inv in H; [|exact Hb].
    destruct H as (b & r & H1 & H2 & H3). cbn [run] in H3.
    destruct (forallb (Z.eqb 0) b) eqn:F.
    + assert (v = VNull) as -> by congruence. reflexivity.
    + assert (v = VUuid b) as -> by congruence. cbn [typed_prim]. rewrite H1, H2, F.
      reflexivity.
  - (* PTd32 *)
    cbn [dec_prim] in H. unfold read_timedelta in H. rewrite run_bind in H.
    destruct (run (read_int 4 true) bs) as [[z r]|e] eqn:E; [|discriminate H].
    rewrite run_bind, run_lift in H. unfold td_of_millis in H. cbv zeta in H.
    destruct ((td_min_us <=? z * 1000) && (z * 1000 <=? td_max_us)); [|discriminate H].
    cbn [run] in H. assert (v = VDur (z * 1000)) as -> by congruence. cbn [typed_prim].
    rewrite Z.mod_mul, Z.div_mul by lia.
    apply read_int_range in E; [|lia|exact Hb]. rewrite E. reflexivity.
  - (* PTd64 *)
    cbn [dec_prim] in H. unfold read_timedelta in H. rewrite run_bind in H.
    destruct (run (read_int 8 true) bs) as [[z r]|e] eqn:E; [|discriminate H].
    rewrite run_bind, run_lift in H. unfold td_of_millis in H. cbv zeta in H.
    destruct ((td_min_us <=? z * 1000) && (z * 1000 <=? td_max_us)) eqn:E2; [|discriminate H].
    cbn [run] in H. assert (v = VDur (z * 1000)) as -> by congruence. cbn [typed_prim].
    rewrite Z.mod_mul by lia. rewrite <- andb_assoc, E2. reflexivity.
  - (* PDt *)
    cbn [dec_prim] in H. unfold read_datetime in H. rewrite run_bind in H.
    destruct (run (read_int 8 true) bs) as [[z r]|e] eqn:E; [|discriminate H].
    destruct (n && (z =? -1)) eqn:E1.
    + cbn [run] in H. assert (v = VNull) as -> by congruence. cbn [typed_prim].
      apply andb_true_iff in E1. tauto.
    + rewrite run_bind, run_lift in H. unfold tz_aware_from_millis in H. cbv zeta in H.
      destruct ((z * 1000 <? dt_min_us) || (dt_max_us <? z * 1000)) eqn:E2; [discriminate H|].
      destruct (z * 1000 <? 0) eqn:E3; [discriminate H|].
      cbn [run] in H. assert (v = VTime (z * 1000)) as -> by congruence. cbn [typed_prim].
      rewrite Z.mod_mul by lia. clear E1. b2p.
      replace (0 <=? z * 1000) with true by (symmetry; apply Z.leb_le; lia).
      replace (z * 1000 <=? dt_max_us) with true by (symmetry; apply Z.leb_le; lia).
      reflexivity.
Qed.
Print Assumptions prim_dec_typed.

(* ------------------------------------------------------------------------------------------ *)
(* a primitive reader only fails with a permitted error *)
Theorem prim_dec_errors : forall ec r bs e,
  run (dec_prim ec r) bs = Err e -> permitted e = true.
Proof.
  intros ec r bs e H.
  destruct r as [w s| | | |c n|c n| | | |n].
  - cbn [dec_prim] in H. rewrite run_bind in H.
    destruct (run (read_int w s) bs) as [[z r]|e'] eqn:E; [cbn [run] in H; discriminate H|].
    assert (e = e') as -> by congruence. apply run_read_int_err in E. subst. reflexivity.
  - cbn [dec_prim] in H. unfold read_float64 in H. rewrite run_bind in H.
    destruct (run (read_int 8 false) bs) as [[z r]|e'] eqn:E; [cbn [run] in H; discriminate H|].
    assert (e = e') as -> by congruence. apply run_read_int_err in E. subst. reflexivity.
  - cbn [dec_prim] in H. unfold read_boolean in H. apply run_read_err in H.
    destruct H as [->|H]; [reflexivity|]. cbn [run] in H. discriminate H.
  - cbn [dec_prim] in H. unfold read_error_code in H. rewrite run_bind in H.
    destruct (run (read_int 2 true) bs) as [[z r]|e'] eqn:E.
    + destruct (known_error_code ec z); cbn [run] in H; [discriminate H|].
      assert (e = EValue) as -> by congruence. reflexivity.
    + assert (e = e') as -> by congruence. apply run_read_int_err in E. subst. reflexivity.
  - destruct c.
    + rewrite dec_str_compact in H. eapply compact_gen_err; [|exact H]. apply decode_str_err.
    + rewrite dec_str_legacy in H. eapply legacy_gen_err; [|exact H]. apply decode_str_err.
  - destruct c.
    + rewrite dec_bytes_compact in H. eapply compact_gen_err; [|exact H]. apply k_bytes_err.
    + rewrite dec_bytes_legacy in H. eapply legacy_gen_err; [|exact H]. apply k_bytes_err.
  - cbn [dec_prim] in H. unfold read_uuid in H. apply run_read_err in H.
    destruct H as [->|H]; [reflexivity|]. cbn [run] in H. discriminate H.
  - cbn [dec_prim] in H. unfold read_timedelta in H. rewrite run_bind in H.
    destruct (run (read_int 4 true) bs) as [[z r]|e'] eqn:E.
    + rewrite run_bind, run_lift in H. unfold td_of_millis in H. cbv zeta in H.
      destruct ((td_min_us <=? z * 1000) && (z * 1000 <=? td_max_us));
        [cbn [run] in H; discriminate H|].
      assert (e = EOverflow) as -> by congruence. reflexivity.
    + assert (e = e') as -> by congruence. apply run_read_int_err in E. subst. reflexivity.
  - cbn [dec_prim] in H. unfold read_timedelta in H. rewrite run_bind in H.
    destruct (run (read_int 8 true) bs) as [[z r]|e'] eqn:E.
    + rewrite run_bind, run_lift in H. unfold td_of_millis in H. cbv zeta in H.
      destruct ((td_min_us <=? z * 1000) && (z * 1000 <=? td_max_us));
        [cbn [run] in H; discriminate H|].
      assert (e = EOverflow) as -> by congruence. reflexivity.
    + assert (e = e') as -> by congruence. apply run_read_int_err in E. subst. reflexivity.
  - cbn [dec_prim] in H. unfold read_datetime in H. rewrite run_bind in H.
    destruct (run (read_int 8 true) bs) as [[z r]|e'] eqn:E.
    + destruct (n && (z =? -1)); [cbn [run] in H; discriminate H|].
      rewrite run_bind, run_lift in H. unfold tz_aware_from_millis in H. cbv zeta in H.
      destruct ((z * 1000 <? dt_min_us) || (dt_max_us <? z * 1000)).
      * assert (e = EOverflow) as -> by congruence. reflexivity.
      * destruct (z * 1000 <? 0); [|cbn [run] in H; discriminate H].
        assert (e = EOutOfBound) as -> by congruence. reflexivity.
    + assert (e = e') as -> by congruence. apply run_read_int_err in E. subst. reflexivity.
Qed.
Print Assumptions prim_dec_errors.
