(* C10, the "time proportional to the input size" clause: the number of read_exact calls the
   entity decoder performs on ANY input is at most  weight E i * (length input + 1), where the
   weight is computed from the plans alone.

   Shape of the argument.  Every component p of the decoder satisfies, for every input s,
       cbound W p s :  run_cost p s <= W * (1 + consumed)
   where consumed = length s - length rest for a successful run and length s for a failing one
   (written without subtraction below).  cbound composes additively along `bind`.  The
   wire-driven loops (array items, tagged section) iterate a component that takes at least one
   byte whenever it succeeds (`consumes`, from DecodeProofs), hence W*(1+consumed) <= 2*W*consumed
   per successful iteration, and at most one iteration fails: the loop is bounded by 2*W.
   Neither the fuel nor refs_lt is needed for the bound: running out of fuel only ends a loop
   earlier.  What is needed of wf_env is items_nonempty and codec_ok (zero-width items would let
   a loop run `fuel` times without consuming anything). *)
From Coq Require Import ZArith List Bool Lia.
From KioV Require Import Base.Res Base.Prog Base.ProgProofs
  Prim.Bytes Prim.Varint Codec.Value Codec.PrimCodec Codec.PrimCodecProofs Codec.Reader
  Schema.Introspect Codec.Typed Codec.DecodeProofs.
Import ListNotations.
Open Scope nat_scope.

(* ========================================================================================== *)
(* Programs with an absolute bound on the number of reads (the primitive readers)             *)
(* ========================================================================================== *)
Definition cmax {A} (C : nat) (p : prog A) : Prop := forall s, run_cost p s <= C.

Lemma cmax_ret {A} C (a : A) : cmax C (Ret a).
Proof. intros s. cbn [run_cost]. lia. Qed.

Lemma cmax_fail {A} C e : cmax C (@Fail A e).
Proof. intros s. cbn [run_cost]. lia. Qed.

Lemma cmax_lift {A} C (r : res A) : cmax C (lift r).
Proof. destruct r; [apply cmax_ret|apply cmax_fail]. Qed.

Lemma cmax_le {A} C C' (p : prog A) : C <= C' -> cmax C p -> cmax C' p.
Proof. intros Hle H s. specialize (H s). lia. Qed.

Lemma cmax_read {A} C n (k : list Z -> prog A) : (forall b, cmax C (k b)) -> cmax (S C) (Read n k).
Proof.
  intros H s. cbn [run_cost]. destruct ((n <? 0)%Z || (Z.of_nat (length s) <? n)%Z); [lia|].
  specialize (H (firstn (Z.to_nat n) s) (skipn (Z.to_nat n) s)). lia.
Qed.

Lemma cmax_bind {A B} C1 C2 (p : prog A) (f : A -> prog B) :
  cmax C1 p -> (forall a, cmax C2 (f a)) -> cmax (C1 + C2) (bind p f).
Proof.
  intros H1 H2 s. rewrite run_cost_bind. specialize (H1 s).
  destruct (run p s) as [[a r]|e]; [specialize (H2 a r)|]; lia.
Qed.

Ltac cm_leaf :=
  repeat match goal with
  | |- cmax _ (Ret _) => apply cmax_ret
  | |- cmax _ (Fail _) => apply cmax_fail
  | |- cmax _ (lift _) => apply cmax_lift
  | |- cmax _ (decode_str _) => unfold decode_str
  | |- cmax 0 (bind _ _) => apply (cmax_bind 0 0); [|intros ?]
  | |- cmax _ (if ?b then _ else _) => destruct b
  end.

Lemma cmax_read_int w sg : cmax 1 (read_int w sg).
Proof. unfold read_int. apply (cmax_read 0). intros b. cm_leaf. Qed.

(* one byte per read_exact call, at most max_bytes of them *)
Lemma cmax_read_uvarint_aux : forall n shift acc, cmax n (read_uvarint_aux n shift acc).
Proof.
  induction n as [|n IH]; intros shift acc; cbn [read_uvarint_aux]; [apply cmax_fail|].
  apply cmax_read. intros b. cbv beta zeta.
  destruct (Z.land (hd 0%Z b) 128 =? 0)%Z; [apply cmax_ret|apply IH].
Qed.

Lemma cmax_read_uvarint : cmax 5 read_uvarint.
Proof. apply cmax_read_uvarint_aux. Qed.

Lemma cmax_read_compact_len : cmax 5 read_compact_len.
Proof. unfold read_compact_len. apply (cmax_bind 5 0); [apply cmax_read_uvarint|intros n; cm_leaf]. Qed.

(* max_bytes + 1: the varint length, then the payload *)
Lemma cmax_dec_prim ec p : cmax 6 (dec_prim ec p).
Proof.
  destruct p as [w s| | | |c n|c n| | | |n]; cbn [dec_prim].
  - apply (cmax_le 1); [lia|]. apply (cmax_bind 1 0); [apply cmax_read_int|intros z; cm_leaf].
  - unfold read_float64. apply (cmax_le 1); [lia|].
    apply (cmax_bind 1 0); [apply cmax_read_int|intros z; cm_leaf].
  - unfold read_boolean. apply (cmax_le 1); [lia|]. apply (cmax_read 0). intros b. cm_leaf.
  - unfold read_error_code. apply (cmax_le 1); [lia|].
    apply (cmax_bind 1 0); [apply cmax_read_int|intros z; cm_leaf].
  - destruct c.
    + unfold read_compact_string. apply (cmax_bind 5 1); [apply cmax_read_compact_len|].
      intros len. destruct (len =? -1)%Z; [cm_leaf|]. apply (cmax_read 0). intros b. cm_leaf.
    + unfold read_legacy_string. apply (cmax_le 2); [lia|].
      apply (cmax_bind 1 1); [apply cmax_read_int|].
      intros len. destruct (len =? -1)%Z; [cm_leaf|]. apply (cmax_read 0). intros b. cm_leaf.
  - destruct c.
    + unfold read_compact_bytes. apply (cmax_bind 5 1); [apply cmax_read_compact_len|].
      intros len. destruct (len =? -1)%Z; [cm_leaf|]. apply (cmax_read 0). intros b. cm_leaf.
    + unfold read_legacy_bytes. apply (cmax_le 2); [lia|].
      apply (cmax_bind 1 1); [apply cmax_read_int|].
      intros len. destruct (len =? -1)%Z; [cm_leaf|]. apply (cmax_read 0). intros b. cm_leaf.
  - unfold read_uuid. apply (cmax_le 1); [lia|]. apply (cmax_read 0). intros b. cm_leaf.
  - unfold read_timedelta. apply (cmax_le 1); [lia|].
    apply (cmax_bind 1 0); [apply cmax_read_int|intros z; cm_leaf].
  - unfold read_timedelta. apply (cmax_le 1); [lia|].
    apply (cmax_bind 1 0); [apply cmax_read_int|intros z; cm_leaf].
  - unfold read_datetime. apply (cmax_le 1); [lia|].
    apply (cmax_bind 1 0); [apply cmax_read_int|intros z; cm_leaf].
Qed.

(* ========================================================================================== *)
(* The cost invariant                                                                         *)
(* ========================================================================================== *)

(* run_cost p s <= W * (1 + consumed), subtraction-free *)
Definition cbound {A} (W : nat) (p : prog A) (s : list Z) : Prop :=
  match run p s with
  | Ok (_, r) => run_cost p s + W * length r <= W * S (length s)
  | Err _ => run_cost p s <= W * S (length s)
  end.

Lemma cbound_total {A} W (p : prog A) s : cbound W p s -> run_cost p s <= W * (length s + 1).
Proof.
  unfold cbound. replace (length s + 1) with (S (length s)) by lia.
  destruct (run p s) as [[a r]|e]; lia.
Qed.

Lemma cbound_ret {A} W (a : A) s : cbound W (Ret a) s.
Proof. unfold cbound. cbn [run run_cost]. lia. Qed.

Lemma cbound_fail {A} W e s : cbound W (@Fail A e) s.
Proof. unfold cbound. cbn [run run_cost]. lia. Qed.

Lemma cbound_of_cmax {A} C (p : prog A) s : cmax C p -> cbound C p s.
Proof.
  intros H. specialize (H s). unfold cbound. destruct (run p s) as [[a r]|e] eqn:E; [|lia].
  apply run_residue_length in E. pose proof (Nat.mul_le_mono_l _ _ C E). lia.
Qed.

Lemma cbound_le {A} W W' (p : prog A) s : W <= W' -> cbound W p s -> cbound W' p s.
Proof.
  intros Hle H. unfold cbound in *. destruct (run p s) as [[a r]|e] eqn:E.
  - apply run_residue_length in E.
    replace W' with (W + (W' - W)) by lia.
    pose proof (Nat.mul_le_mono_l _ _ (W' - W) E). lia.
  - pose proof (Nat.mul_le_mono_r _ _ (S (length s)) Hle). lia.
Qed.

Lemma cbound_bind {A B} W1 W2 (p : prog A) (f : A -> prog B) s :
  cbound W1 p s -> (forall a r, run p s = Ok (a, r) -> cbound W2 (f a) r) ->
  cbound (W1 + W2) (bind p f) s.
Proof.
  intros H1 H2. unfold cbound in *. rewrite run_bind, run_cost_bind.
  destruct (run p s) as [[a r]|e] eqn:E.
  - specialize (H2 a r eq_refl). apply run_residue_length in E.
    pose proof (Nat.mul_le_mono_l _ _ W2 E).
    destruct (run (f a) r) as [[b r']|e'] eqn:E2.
    + apply run_residue_length in E2. pose proof (Nat.mul_le_mono_l _ _ W1 E2). lia.
    + lia.
  - lia.
Qed.

Lemma cbound_bind_ret {A B} W (p : prog A) (f : A -> prog B) s :
  cbound W p s -> (forall a r, cbound 0 (f a) r) -> cbound W (bind p f) s.
Proof.
  intros H1 H2. apply (cbound_le (W + 0)); [lia|]. apply cbound_bind; [exact H1|].
  intros a r _. apply H2.
Qed.

(* ---- the loop ---- *)
Definition lbound {A} (W : nat) (p : prog A) (s : list Z) : Prop :=
  match run p s with
  | Ok (_, r) => run_cost p s + 2 * W * length r <= 2 * W * length s
  | Err _ => run_cost p s <= 2 * W * length s + W
  end.

(* any count, any fuel: each successful iteration pays for itself with the bytes it takes, and
   at most one iteration fails *)
Lemma repeat_cost {A} W (item : prog A) :
  consumes item -> (forall s, cbound W item s) ->
  forall f n s, lbound W (repeat_prog f n item) s.
Proof.
  intros Hc Hi. induction f as [|f IH]; intros n s; cbn [repeat_prog]; destruct (n <=? 0)%Z;
    try (unfold lbound; cbn [run run_cost]; lia).
  unfold lbound. rewrite run_bind, run_cost_bind.
  pose proof (Hi s) as Hs. unfold cbound in Hs.
  destruct (run item s) as [[a r]|e] eqn:E.
  - pose proof (Hc _ _ _ E) as Hlt. specialize (IH (n - 1)%Z r). unfold lbound in IH.
    rewrite run_bind, run_cost_bind.
    assert (Hm: W * S (length r) <= W * length s) by (apply Nat.mul_le_mono_l; lia).
    destruct (run (repeat_prog f (n - 1) item) r) as [[l r']|e'] eqn:E2; cbn [run run_cost]; lia.
  - lia.
Qed.

Lemma lbound_cbound {A} W (p : prog A) s : lbound W p s -> cbound (2 * W) p s.
Proof. unfold lbound, cbound. destruct (run p s) as [[a r]|e]; lia. Qed.

(* ========================================================================================== *)
(* Weights                                                                                    *)
(* ========================================================================================== *)
Section Weights.
  Variable wcl : nat -> nat.          (* weights of the classes of lower rank *)

  Fixpoint wcodec (c : codec) : nat :=
    match c with
    | CPrim _ => 6                                         (* 5 varint bytes + the payload *)
    | CEnt j nullable => if nullable then S (wcl j) else wcl j      (* the marker byte *)
    | CArr _ item => 5 + 2 * wcodec item                   (* the length, then the loop *)
    end.

  Fixpoint wfields (fs : list fplan2) : nat :=
    match fs with [] => 0 | f :: tl => wcodec (f2_r f) + wfields tl end.

  (* regular fields; in a flexible class the section count (5) and the loop over entries, an
     entry being tag (5) + size (5) + either one skipping read or a tagged field's reader *)
  Definition wclass (c : cplan2) : nat :=
    let w := wfields (c2_fields c) in
    if c2_flexible c then w + (5 + 2 * (11 + w)) else w.
End Weights.

Fixpoint wrank (E : list cplan2) (rank : nat) (i : nat) : nat :=
  match rank with
  | O => 0
  | S r => match nth_error E i with
           | None => 0
           | Some c => wclass (wrank E r) c
           end
  end.

(* mirrors `decoder`: class i is decoded at rank S i *)
Definition weight (E : list cplan2) (i : nat) : nat := wrank E (S i) i.

(* ========================================================================================== *)
(* One class, given the bounds of the classes it refers to                                    *)
(* ========================================================================================== *)
Section Cost.
  Variable E : list cplan2.
  Variable ec : list Z.
  Variable fuel : nat.
  Variable dc : nat -> prog value.
  Variable wcl : nat -> nat.
  Hypothesis Hdc : forall j s, cbound (wcl j) (dc j) s.
  Hypothesis Hne : forall j cj, nth_error E j = Some cj -> class_nonempty cj = true ->
    consumes (dc j).

  Lemma dec_codec_cost : forall c, items_nonempty E c = true -> codec_ok c = true ->
    forall s, cbound (wcodec wcl c) (dec_codec ec fuel dc c) s.
  Proof.
    induction c as [p|j n|b item IH]; intros Hi Hok s; cbn [dec_codec wcodec].
    - apply cbound_of_cmax, cmax_dec_prim.
    - destruct n; [|apply Hdc].
      apply (cbound_bind 1 (wcl j)); [apply cbound_of_cmax, cmax_read_int|].
      intros m r _. destruct (m =? -1)%Z; [apply cbound_ret|].
      destruct (m =? 1)%Z; [apply Hdc|apply cbound_fail].
    - cbn [codec_ok] in Hok.
      pose proof (items_nonempty_item_ne _ _ _ Hi Hok) as Hitem.
      cbn [items_nonempty] in Hi. apply andb_true_iff in Hi. destruct Hi as [Hi _].
      apply (cbound_bind 5 (2 * wcodec wcl item)).
      + apply cbound_of_cmax. destruct b; [apply cmax_read_compact_len|].
        apply (cmax_le 1); [lia|apply cmax_read_int].
      + intros len r _. destruct (len =? -1)%Z; [apply cbound_ret|].
        apply cbound_bind_ret; [|intros; apply cbound_ret].
        apply lbound_cbound, repeat_cost.
        * apply (dec_codec_consumes E); [exact Hne|exact Hitem].
        * intros s'. apply IH; assumption.
  Qed.

  (* reader-side conditions on a field (rwf without the reference bound) *)
  Definition cwf (f : fplan2) : Prop :=
    items_nonempty E (f2_r f) = true /\ codec_ok (f2_r f) = true.

  Lemma wfields_in f : forall fs, In f fs -> wcodec wcl (f2_r f) <= wfields wcl fs.
  Proof.
    induction fs as [|g tl IH]; intros Hin; [destruct Hin|]. cbn [wfields].
    destruct Hin as [->|Hin]; [lia|]. specialize (IH Hin). lia.
  Qed.

  Lemma dec_regular_cost : forall fs, Forall cwf fs ->
    forall s, cbound (wfields wcl fs) (dec_regular ec fuel dc (map rp fs)) s.
  Proof.
    induction fs as [|f tl IH]; intros Hwf s; cbn [map dec_regular wfields]; [apply cbound_ret|].
    inversion Hwf as [|f' tl' [H1 H2] Htl]; subst. cbn [fp_tag fp_codec rp].
    destruct (f2_tag f).
    - eapply cbound_le; [|apply IH; assumption]. lia.
    - apply cbound_bind; [apply dec_codec_cost; assumption|]. intros v r _.
      apply cbound_bind_ret; [apply IH; assumption|intros; apply cbound_ret].
  Qed.

  Lemma dec_one_tag_cost fs : Forall cwf fs ->
    forall s, cbound (11 + wfields wcl fs) (dec_one_tag ec fuel dc (map rp fs)) s.
  Proof.
    intros Hwf s. unfold dec_one_tag.
    apply (cbound_bind 5 (6 + wfields wcl fs)); [apply cbound_of_cmax, cmax_read_uvarint|].
    intros t r1 _.
    apply (cbound_bind 5 (1 + wfields wcl fs)); [apply cbound_of_cmax, cmax_read_uvarint|].
    intros sz r2 _.
    destruct (find_tag t (map rp fs)) as [g|] eqn:Ef.
    - destruct (find_tag_map _ _ _ Ef) as (f & Hin & -> & Ht).
      rewrite Forall_forall in Hwf. destruct (Hwf f Hin) as [H1 H2]. cbn [fp_codec rp].
      apply cbound_bind_ret; [|intros; apply cbound_ret].
      eapply cbound_le; [|apply dec_codec_cost; assumption].
      pose proof (wfields_in f fs Hin). lia.
    - eapply cbound_le; [|apply cbound_of_cmax, (cmax_read 0); intros b; apply cmax_ret]. lia.
  Qed.

  Lemma dec_entity_cost c : Forall cwf (c2_fields c) ->
    forall s, cbound (wclass wcl c) (dec_entity ec fuel dc (reader_plan c)) s.
  Proof.
    intros Hwf s. unfold dec_entity, wclass. cbv zeta. rewrite reader_plan_fields.
    cbn [cp_flexible reader_plan].
    destruct (negb (c2_flexible c) && has_tagged (map rp (c2_fields c))); [apply cbound_fail|].
    destruct (c2_flexible c).
    - apply cbound_bind; [apply dec_regular_cost; assumption|]. intros r s1 _.
      apply (cbound_bind 5 (2 * (11 + wfields wcl (c2_fields c))));
        [apply cbound_of_cmax, cmax_read_uvarint|].
      intros n s2 _. apply cbound_bind_ret; [|intros; apply cbound_ret].
      apply lbound_cbound, repeat_cost.
      + apply dec_one_tag_consumes.
      + intros s'. apply dec_one_tag_cost. assumption.
    - apply cbound_bind_ret; [apply dec_regular_cost; assumption|intros; apply cbound_ret].
  Qed.
End Cost.

(* ========================================================================================== *)
(* All classes, by induction on the rank                                                      *)
(* ========================================================================================== *)
Lemma rwf_cwf E i f : rwf E i f -> cwf E f.
Proof. intros (_ & H2 & H3). split; assumption. Qed.

Lemma dec_class_cost E ec fuel : wf_env E = true ->
  forall r i s, cbound (wrank E r i) (dec_class (map reader_plan E) ec fuel r i) s.
Proof.
  intros Hwf. induction r as [|r IH]; intros i s; cbn [dec_class wrank]; [apply cbound_fail|].
  rewrite nth_error_map. destruct (nth_error E i) as [c|] eqn:Ei; cbn [option_map];
    [|apply cbound_fail].
  apply (dec_entity_cost E).
  - exact IH.
  - intros j cj Hj Hc. eapply dec_class_consumes; eassumption.
  - pose proof (wf_class_rwf _ _ _ (wf_env_nth _ _ _ Hwf Ei)) as Hr.
    eapply Forall_impl; [|exact Hr]. intros f. apply rwf_cwf.
Qed.

(* the bound needs neither  i < length E  nor  length bs < fuel *)
Theorem decode_cost_linear_any_fuel : forall (E : list cplan2) (ec : list Z), wf_env E = true ->
  forall i bs fuel,
  run_cost (decoder (map reader_plan E) ec i fuel) bs <= weight E i * (length bs + 1).
Proof.
  intros E ec Hwf i bs fuel. unfold decoder, weight. apply cbound_total, dec_class_cost, Hwf.
Qed.

Theorem decode_cost_linear : forall (E : list cplan2) (ec : list Z), wf_env E = true ->
  forall i bs fuel, (i < length E)%nat -> (length bs < fuel)%nat ->
  (run_cost (decoder (map reader_plan E) ec i fuel) bs <= weight E i * (length bs + 1))%nat.
Proof. intros E ec Hwf i bs fuel _ _. apply decode_cost_linear_any_fuel, Hwf. Qed.
Print Assumptions decode_cost_linear.

Corollary decode_cost_top : forall E ec, wf_env E = true -> forall i bs, (i < length E)%nat ->
  (run_cost (decoder (map reader_plan E) ec i (S (length bs))) bs <= weight E i * (length bs + 1))%nat.
Proof. intros E ec Hwf i bs Hi. apply decode_cost_linear; [exact Hwf|exact Hi|lia]. Qed.
Print Assumptions decode_cost_top.

(* the successful case, in the sharper form: reads <= weight * (1 + bytes consumed) *)
Corollary decode_cost_consumed : forall E ec, wf_env E = true -> forall i bs fuel v rest,
  run (decoder (map reader_plan E) ec i fuel) bs = Ok (v, rest) ->
  run_cost (decoder (map reader_plan E) ec i fuel) bs + weight E i * length rest
    <= weight E i * (length bs + 1).
Proof.
  intros E ec Hwf i bs fuel v rest H. unfold decoder, weight in *.
  pose proof (dec_class_cost E ec fuel Hwf (S i) i bs) as Hb. unfold cbound in Hb.
  rewrite H in Hb. lia.
Qed.

(* ========================================================================================== *)
(* Sanity: a two-class environment                                                            *)
(* ========================================================================================== *)
Definition cost_ex_env : list cplan2 :=
  [ {| c2_name := Strings.String.EmptyString; c2_flexible := false;
       c2_fields := [ {| f2_name := Strings.String.EmptyString;
                         f2_r := CPrim (PInt 4 true); f2_w := CPrim (PInt 4 true);
                         f2_tag := None; f2_default := VNull |} ] |};
    {| c2_name := Strings.String.EmptyString; c2_flexible := true;
       c2_fields := [ {| f2_name := Strings.String.EmptyString;
                         f2_r := CArr true (CEnt 0 false); f2_w := CArr true (CEnt 0 false);
                         f2_tag := None; f2_default := VNull |};
                      {| f2_name := Strings.String.EmptyString;
                         f2_r := CPrim (PStr true true); f2_w := CPrim (PStr true true);
                         f2_tag := Some 0%Z; f2_default := VNull |} ] |} ].

Example cost_ex_wf : wf_env cost_ex_env = true.
Proof. vm_compute. reflexivity. Qed.

(* class 0: 6.  class 1: fields 17 + 6 = 23; flexible: 23 + 5 + 2 * (11 + 23) = 96 *)
Example weight_example : weight cost_ex_env 1 = 96.
Proof. vm_compute. reflexivity. Qed.

(* the bound is attained up to the constant: an array announcing 2^31-1 items over 3 bytes *)
Example cost_ex_run :
  let bs := [255; 255; 255; 255; 8; 0; 0]%Z in
  run (decoder (map reader_plan cost_ex_env) [] 1 (S (length bs))) bs = Err EUnderflow /\
  run_cost (decoder (map reader_plan cost_ex_env) [] 1 (S (length bs))) bs = 6.
Proof. vm_compute. split; reflexivity. Qed.
