(* Executable comparison of model observations with observations of the implementation, used
   by the correspondence checks (the harness writes the implementation's observations as Coq
   terms; Coq evaluates the model and reports the indices that disagree).  Definitions only. *)
From Coq Require Import ZArith List Bool String.
From KioV Require Import Base.Res Base.Prog Codec.Value Codec.PrimCodec Codec.Reader Codec.Writer.
Import ListNotations.
Open Scope Z_scope.

(* error classes as the observation functions see them: ValueError and OverflowError are one
   class (the properties never distinguish them) *)
Definition err_class (e : err) : err := match e with EOverflow => EValue | _ => e end.

Definition res_eqb {A} (eqb : A -> A -> bool) (a b : res A) : bool :=
  match a, b with
  | Ok x, Ok y => eqb x y
  | Err e, Err f => err_eqb (err_class e) (err_class f)
  | _, _ => false
  end.

Definition dec_eqb (a b : value * list Z) : bool := val_eqb (fst a) (fst b) && zlist_eqb (snd a) (snd b).

(* one encode/decode case: class index, value, what the implementation's writer produced, a
   tail appended before decoding, what the implementation's reader returned *)
Record case := {
  k_cls : nat; k_val : value;
  k_enc : res (list Z);
  k_input : list Z;                       (* bytes handed to the reader *)
  k_dec : res (value * list Z)            (* value and unread remainder, or the error class *)
}.

Definition check_case (W R : penv) (ec : list Z) (k : case) : bool :=
  res_eqb zlist_eqb (encode W (k_cls k) (k_val k)) (k_enc k)
  && res_eqb dec_eqb (decode R ec (k_cls k) (k_input k)) (k_dec k).

Fixpoint failing_from {A} (chk : A -> bool) (i : nat) (l : list A) : list nat :=
  match l with
  | [] => []
  | x :: tl => if chk x then failing_from chk (S i) tl else i :: failing_from chk (S i) tl
  end.
Definition failing {A} (chk : A -> bool) (l : list A) : list nat := failing_from chk 0 l.

(* decode-only case *)
Record dcase := { d_cls : nat; d_input : list Z; d_dec : res (value * list Z) }.
Definition check_dcase (R : penv) (ec : list Z) (k : dcase) : bool :=
  res_eqb dec_eqb (decode R ec (d_cls k) (d_input k)) (d_dec k).

(* wire-first case (C02/C03/C05): a decorated value, the bytes an independent (Python) reference
   encoder produced for it, the input handed to the reader, and what the implementation's reader
   returned.  Checks that the Coq specification produces the same bytes, that the decorated
   value is conforming, and that the decoder model agrees with the implementation. *)
From KioV Require Import Schema.Introspect Codec.WireSpec.
Record ccase := {
  c_cls : nat; c_dv : dvalue; c_bytes : list Z; c_input : list Z; c_dec : res (value * list Z)
}.
Definition check_ccase (E : list cplan2) (R : penv) (ec : list Z) (k : ccase) : bool :=
  res_eqb zlist_eqb (spec_enc E (c_cls k) (c_dv k)) (Ok (c_bytes k))
  && conforming E ec (c_cls k) (c_dv k)
  && res_eqb dec_eqb (decode R ec (c_cls k) (c_input k)) (c_dec k).
