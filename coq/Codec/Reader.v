(* The entity decoder: kio.serial._parse.entity_reader interpreted over a resolved plan.
   Definitions only. *)
From Coq Require Import ZArith List Bool String.
From KioV Require Import Base.Res Base.Prog Prim.Bytes Prim.Varint Codec.Value Codec.PrimCodec.
Import ListNotations.
Open Scope Z_scope.

Definition find_tag (t : Z) (fs : list fplan) : option fplan :=
  find (fun f => match fp_tag f with Some t' => t =? t' | None => false end) fs.

(* tagged_field_values[...] = ... in a loop: the last occurrence of a tag wins *)
Fixpoint assoc_last (t : Z) (l : list (Z * value)) : option value :=
  match l with
  | [] => None
  | (t', v) :: tl => match assoc_last t tl with
                     | Some v' => Some v'
                     | None => if t =? t' then Some v else None
                     end
  end.

(* kwargs: regular fields in order, tagged fields from the section or their default *)
Fixpoint fill (fs : list fplan) (regular : list value) (tags : list (Z * value)) : list value :=
  match fs with
  | [] => []
  | f :: tl =>
      match fp_tag f with
      | None => match regular with
                | v :: r' => v :: fill tl r' tags
                | [] => VNull :: fill tl [] tags
                end
      | Some t => (match assoc_last t tags with Some v => v | None => fp_default f end)
                  :: fill tl regular tags
      end
  end.

Fixpoint keep_some {A} (l : list (option A)) : list A :=
  match l with [] => [] | Some a :: tl => a :: keep_some tl | None :: tl => keep_some tl end.

Section Dec.
  Variable ec : list Z.                      (* known error codes *)
  Variable fuel : nat.                       (* > input length: bounds every wire-driven loop *)
  Variable dec_class : nat -> prog value.    (* classes of lower rank *)

  Fixpoint dec_codec (c : codec) : prog value :=
    match c with
    | CPrim p => dec_prim ec p
    | CEnt i nullable =>
        if nullable then
          m <- read_int 1 true ;;
          if m =? -1 then Ret VNull
          else if m =? 1 then dec_class i
          else Fail EValue                   (* NullableEntityMarker(m): enum lookup *)
        else dec_class i
    | CArr compact item =>
        len <- (if compact then read_compact_len else read_int 4 true) ;;
        if len =? -1 then Ret VNull
        else l <- repeat_prog fuel len (dec_codec item) ;; Ret (VArr l)
    end.

  Fixpoint dec_regular (fs : list fplan) : prog (list value) :=
    match fs with
    | [] => Ret []
    | f :: tl => match fp_tag f with
                 | Some _ => dec_regular tl
                 | None => v <- dec_codec (fp_codec f) ;; r <- dec_regular tl ;; Ret (v :: r)
                 end
    end.

  (* one entry of the tagged section: tag, size, then either the known field's reader
     (the size is not consulted) or `size` bytes skipped through read_exact *)
  Definition dec_one_tag (fs : list fplan) : prog (option (Z * value)) :=
    t <- read_uvarint ;;
    sz <- read_uvarint ;;
    match find_tag t fs with
    | None => Read sz (fun _ => Ret None)
    | Some f => v <- dec_codec (fp_codec f) ;; Ret (Some (t, v))
    end.

  Definition dec_entity (c : cplan) : prog value :=
    let fs := cp_fields c in
    if negb (cp_flexible c) && has_tagged fs then Fail EValue   (* raised by entity_reader *)
    else
    r <- dec_regular fs ;;
    if cp_flexible c then
      n <- read_uvarint ;;
      tags <- repeat_prog fuel n (dec_one_tag fs) ;;
      Ret (VEnt (fill fs r (keep_some tags)))
    else Ret (VEnt (fill fs r [])).
End Dec.

Fixpoint dec_class (E : penv) (ec : list Z) (fuel : nat) (rank : nat) (i : nat) : prog value :=
  match rank with
  | O => Fail ERecursion
  | S r => match nth_error E i with
           | None => Fail EType
           | Some c => dec_entity ec fuel (dec_class E ec fuel r) c
           end
  end.

Definition decoder (E : penv) (ec : list Z) (i : nat) (fuel : nat) : prog value :=
  dec_class E ec fuel (S i) i.

Definition decode (E : penv) (ec : list Z) (i : nat) (bs : list Z) : res (value * list Z) :=
  run (decoder E ec i (S (List.length bs))) bs.
