(* The decoder half of C05/C06/C10: whatever the entity decoder returns is a well-typed value of
   the class (hence accepted by the encoder), it fails only with permitted error classes (never
   with an internal error, never by exhausting the loop fuel), and lowering the fuel can only
   produce the out-of-fuel outcome. *)
From Coq Require Import ZArith List Bool Lia.
From KioV Require Import Base.Res Base.Prog Base.ProgProofs
  Prim.Bytes Prim.Varint Prim.BytesProofs Prim.VarintProofs
  Codec.Value Codec.PrimCodec Codec.PrimCodecProofs Codec.Reader Schema.Introspect Codec.Typed.
Import ListNotations.
Open Scope Z_scope.

(* ========================================================================================== *)
(* G3: fuel monotonicity.  Independent of well-formedness.                                    *)
(* ========================================================================================== *)

(* p1 behaves like p2 or reports out-of-fuel *)
Definition lowers {A} (p1 p2 : prog A) : Prop :=
  forall bs, run p1 bs = run p2 bs \/ run p1 bs = Err EOutOfGas.

Lemma lowers_refl {A} (p : prog A) : lowers p p.
Proof. intros bs. left. reflexivity. Qed.

Lemma lowers_bind {A B} (p1 p2 : prog A) (f1 f2 : A -> prog B) :
  lowers p1 p2 -> (forall a, lowers (f1 a) (f2 a)) -> lowers (bind p1 f1) (bind p2 f2).
Proof.
  intros Hp Hf bs. rewrite !run_bind. destruct (Hp bs) as [H|H]; rewrite H.
  - destruct (run p2 bs) as [[a r]|e]; [apply Hf|left; reflexivity].
  - right. reflexivity.
Qed.

Lemma lowers_repeat {A} (item1 item2 : prog A) : lowers item1 item2 ->
  forall f1 f2 n, (f1 <= f2)%nat -> lowers (repeat_prog f1 n item1) (repeat_prog f2 n item2).
Proof.
  intros Hi. induction f1 as [|f1 IH]; intros f2 n Hle.
  - destruct f2; cbn [repeat_prog]; destruct (n <=? 0); try apply lowers_refl;
      intros bs; right; reflexivity.
  - destruct f2 as [|f2]; [lia|]. cbn [repeat_prog]. destruct (n <=? 0); [apply lowers_refl|].
    apply lowers_bind; [exact Hi|]. intros x.
    apply lowers_bind; [apply IH; lia|]. intros xs. apply lowers_refl.
Qed.

Section Lower.
  Variable ec : list Z.
  Variables f1 f2 : nat.
  Hypothesis Hle : (f1 <= f2)%nat.
  Variables dc1 dc2 : nat -> prog value.
  Hypothesis Hdc : forall j, lowers (dc1 j) (dc2 j).

  Lemma lowers_dec_codec c : lowers (dec_codec ec f1 dc1 c) (dec_codec ec f2 dc2 c).
  Proof.
    induction c as [p|j nullable|compact item IH]; cbn [dec_codec].
    - apply lowers_refl.
    - destruct nullable; [|apply Hdc].
      apply lowers_bind; [apply lowers_refl|]. intros m.
      destruct (m =? -1); [apply lowers_refl|].
      destruct (m =? 1); [apply Hdc|apply lowers_refl].
    - apply lowers_bind; [apply lowers_refl|]. intros len.
      destruct (len =? -1); [apply lowers_refl|].
      apply lowers_bind; [apply lowers_repeat; [exact IH|exact Hle]|].
      intros l. apply lowers_refl.
  Qed.

  Lemma lowers_dec_regular fs : lowers (dec_regular ec f1 dc1 fs) (dec_regular ec f2 dc2 fs).
  Proof.
    induction fs as [|f tl IH]; cbn [dec_regular]; [apply lowers_refl|].
    destruct (fp_tag f); [exact IH|].
    apply lowers_bind; [apply lowers_dec_codec|]. intros v.
    apply lowers_bind; [exact IH|]. intros r. apply lowers_refl.
  Qed.

  Lemma lowers_dec_one_tag fs : lowers (dec_one_tag ec f1 dc1 fs) (dec_one_tag ec f2 dc2 fs).
  Proof.
    unfold dec_one_tag.
    apply lowers_bind; [apply lowers_refl|]. intros t.
    apply lowers_bind; [apply lowers_refl|]. intros sz.
    destruct (find_tag t fs); [|apply lowers_refl].
    apply lowers_bind; [apply lowers_dec_codec|]. intros v. apply lowers_refl.
  Qed.

  Lemma lowers_dec_entity c : lowers (dec_entity ec f1 dc1 c) (dec_entity ec f2 dc2 c).
  Proof.
    unfold dec_entity. cbv zeta.
    destruct (negb (cp_flexible c) && has_tagged (cp_fields c)); [apply lowers_refl|].
    apply lowers_bind; [apply lowers_dec_regular|]. intros r.
    destruct (cp_flexible c); [|apply lowers_refl].
    apply lowers_bind; [apply lowers_refl|]. intros n.
    apply lowers_bind; [apply lowers_repeat; [apply lowers_dec_one_tag|exact Hle]|].
    intros tags. apply lowers_refl.
  Qed.
End Lower.

Lemma lowers_dec_class (P : penv) ec f1 f2 : (f1 <= f2)%nat ->
  forall rank i, lowers (dec_class P ec f1 rank i) (dec_class P ec f2 rank i).
Proof.
  intros Hle. induction rank as [|r IH]; intros i; cbn [dec_class]; [apply lowers_refl|].
  destruct (nth_error P i); [|apply lowers_refl].
  apply lowers_dec_entity; [exact Hle|exact IH].
Qed.

Theorem fuel_lower : forall E ec i f1 f2 bs, (f1 <= f2)%nat ->
  run (decoder (map reader_plan E) ec i f1) bs = run (decoder (map reader_plan E) ec i f2) bs
  \/ run (decoder (map reader_plan E) ec i f1) bs = Err EOutOfGas.
Proof.
  intros E ec i f1 f2 bs Hle. unfold decoder. apply lowers_dec_class. exact Hle.
Qed.
Print Assumptions fuel_lower.

(* ========================================================================================== *)
(* Generic program logic: partial-correctness specs and progress                              *)
(* ========================================================================================== *)

(* p on bs fails with a permitted error, or returns a P-value (provided the input is bytes) *)
Definition spec {A} (P : A -> Prop) (p : prog A) (bs : list Z) : Prop :=
  match run p bs with
  | Err e => permitted e = true
  | Ok (a, r) => bytes_ok bs = true -> P a
  end.

Lemma spec_intro {A} (P : A -> Prop) p bs :
  (forall a r, run p bs = Ok (a, r) -> bytes_ok bs = true -> P a) ->
  (forall e, run p bs = Err e -> permitted e = true) -> spec P p bs.
Proof.
  intros H1 H2. unfold spec. destruct (run p bs) as [[a r]|e]; [eapply H1; reflexivity|].
  apply H2. reflexivity.
Qed.

Lemma spec_ret {A} (P : A -> Prop) a bs : P a -> spec P (Ret a) bs.
Proof. intros H. unfold spec. cbn [run]. intros _. exact H. Qed.

Lemma spec_fail {A} (P : A -> Prop) e bs : permitted e = true -> spec P (Fail e) bs.
Proof. intros H. unfold spec. cbn [run]. exact H. Qed.

Lemma spec_weaken {A} (P Q : A -> Prop) p bs :
  (forall a, P a -> Q a) -> spec P p bs -> spec Q p bs.
Proof.
  unfold spec. intros H Hp. destruct (run p bs) as [[a r]|e]; [|exact Hp].
  intros Hb. apply H, Hp, Hb.
Qed.

Lemma spec_bind {A B} (Q : A -> Prop) (P : B -> Prop) p (f : A -> prog B) bs :
  spec Q p bs ->
  (forall a r, run p bs = Ok (a, r) -> spec (fun b => Q a -> P b) (f a) r) ->
  spec P (bind p f) bs.
Proof.
  intros Hp Hf. unfold spec in *. rewrite run_bind.
  destruct (run p bs) as [[a r]|e] eqn:Ep; [|exact Hp].
  specialize (Hf a r eq_refl). destruct (run (f a) r) as [[b r']|e]; [|exact Hf].
  intros Hb. apply Hf; [eapply run_rest_ok; eassumption|apply Hp, Hb].
Qed.

Lemma spec_read {A} (P : A -> Prop) n (k : list Z -> prog A) bs :
  spec P (k (firstn (Z.to_nat n) bs)) (skipn (Z.to_nat n) bs) -> spec P (Read n k) bs.
Proof.
  intros H. unfold spec in *. cbn [run].
  destruct ((n <? 0) || (Z.of_nat (length bs) <? n)); [reflexivity|].
  destruct (run (k (firstn (Z.to_nat n) bs)) (skipn (Z.to_nat n) bs)) as [[a r]|e]; [|exact H].
  intros Hb. apply H, bytes_ok_skipn, Hb.
Qed.

Lemma spec_read_int w s bs : (0 < w)%nat ->
  spec (fun z => in_int_range w s z = true) (read_int w s) bs.
Proof.
  intros Hw. apply spec_intro.
  - intros z r H Hb. eapply read_int_range; eassumption.
  - intros e H. apply run_read_int_err in H. subst. reflexivity.
Qed.

Lemma spec_read_uvarint bs : spec (fun z => 0 <= z < 34359738368) read_uvarint bs.
Proof.
  apply spec_intro.
  - intros z r H _. apply read_uvarint_bound in H. exact H.
  - intros e H. eapply read_uvarint_aux_err. exact H.
Qed.

Lemma spec_dec_prim ec p bs : pcodec_ok p = true ->
  spec (fun v => typed_prim ec p v = true) (dec_prim ec p) bs.
Proof.
  intros Hp. apply spec_intro.
  - intros v r H Hb. eapply prim_dec_typed; eassumption.
  - intros e H. eapply prim_dec_errors. exact H.
Qed.

(* progress: a successful run takes at least one byte *)
Definition consumes {A} (p : prog A) : Prop :=
  forall bs a r, run p bs = Ok (a, r) -> (length r < length bs)%nat.

Lemma run_bind_inv {A B} (p : prog A) (f : A -> prog B) bs b r :
  run (bind p f) bs = Ok (b, r) ->
  exists a r1, run p bs = Ok (a, r1) /\ run (f a) r1 = Ok (b, r).
Proof.
  rewrite run_bind. destruct (run p bs) as [[a r1]|e]; [|discriminate].
  intros H. exists a, r1. split; [reflexivity|exact H].
Qed.

Lemma consumes_fail {A} e : consumes (@Fail A e).
Proof. intros bs a r H. discriminate H. Qed.

Lemma consumes_read {A} n (k : list Z -> prog A) : 0 < n -> consumes (Read n k).
Proof.
  intros Hn bs a r H. apply run_read_ok in H. destruct H as (H0 & H1 & H).
  apply run_residue_length in H. rewrite skipn_length in H. unfold zlen in H1. lia.
Qed.

Lemma consumes_bind_l {A B} (p : prog A) (f : A -> prog B) : consumes p -> consumes (bind p f).
Proof.
  intros Hp bs b r H. apply run_bind_inv in H. destruct H as (a & r1 & H1 & H2).
  apply Hp in H1. apply run_residue_length in H2. lia.
Qed.

Lemma consumes_bind_r {A B} (p : prog A) (f : A -> prog B) :
  (forall a, consumes (f a)) -> consumes (bind p f).
Proof.
  intros Hf bs b r H. apply run_bind_inv in H. destruct H as (a & r1 & H1 & H2).
  apply Hf in H2. apply run_residue_length in H1. lia.
Qed.

Lemma consumes_read_int w s : (0 < w)%nat -> consumes (read_int w s).
Proof. intros Hw. unfold read_int. apply consumes_read. lia. Qed.

Lemma consumes_read_uvarint : consumes read_uvarint.
Proof.
  unfold read_uvarint, read_uvarint_n. cbn [read_uvarint_aux]. apply consumes_read. lia.
Qed.

Lemma consumes_read_compact_len : consumes read_compact_len.
Proof. unfold read_compact_len. apply consumes_bind_l, consumes_read_uvarint. Qed.

Lemma consumes_dec_prim ec p : pcodec_ok p = true -> consumes (dec_prim ec p).
Proof.
  intros Hp. destruct p as [w s| | | |c n|c n| | | |n]; cbn [dec_prim].
  - apply consumes_bind_l, consumes_read_int. cbn [pcodec_ok] in Hp. apply Nat.ltb_lt, Hp.
  - unfold read_float64. apply consumes_bind_l, consumes_read_int. lia.
  - unfold read_boolean. apply consumes_read. lia.
  - unfold read_error_code. apply consumes_bind_l, consumes_read_int. lia.
  - destruct c.
    + unfold read_compact_string. apply consumes_bind_l, consumes_read_compact_len.
    + unfold read_legacy_string. apply consumes_bind_l, consumes_read_int. lia.
  - destruct c.
    + unfold read_compact_bytes. apply consumes_bind_l, consumes_read_compact_len.
    + unfold read_legacy_bytes. apply consumes_bind_l, consumes_read_int. lia.
  - unfold read_uuid. apply consumes_read. lia.
  - unfold read_timedelta. apply consumes_bind_l, consumes_read_int. lia.
  - unfold read_timedelta. apply consumes_bind_l, consumes_read_int. lia.
  - unfold read_datetime. apply consumes_bind_l, consumes_read_int. lia.
Qed.

(* the loop: with more fuel than input bytes and items that make progress, the fuel never
   runs out *)
Lemma repeat_spec {A} (P : A -> Prop) (lim : nat) (item : prog A) :
  consumes item ->
  (forall s, (length s < lim)%nat -> spec P item s) ->
  forall f n s, (length s < f)%nat -> (length s < lim)%nat ->
  spec (fun l => Forall P l /\ zlen l = Z.max 0 n) (repeat_prog f n item) s.
Proof.
  intros Hc Hi. induction f as [|f IH]; intros n s Hf Hl; [lia|].
  cbn [repeat_prog]. destruct (n <=? 0) eqn:En.
  - apply spec_ret. apply Z.leb_le in En. split; [constructor|]. unfold zlen. cbn [length]. lia.
  - apply Z.leb_gt in En.
    eapply spec_bind; [apply Hi; exact Hl|]. intros a r Hrun.
    pose proof (Hc _ _ _ Hrun) as Hlt.
    eapply spec_bind; [apply IH; lia|]. intros l r' Hrun'.
    apply spec_ret. intros [HF Hlen] Pa. split; [constructor; assumption|].
    unfold zlen in *. cbn [length]. lia.
Qed.

Lemma Forall_forallb {A} (f : A -> bool) l : Forall (fun x => f x = true) l -> forallb f l = true.
Proof.
  induction 1 as [|x l Hx _ IH]; [reflexivity|]. cbn [forallb]. rewrite Hx, IH. reflexivity.
Qed.

(* ========================================================================================== *)
(* Values and codecs                                                                          *)
(* ========================================================================================== *)

Lemma zlist_eqb_refl l : zlist_eqb l l = true.
Proof. induction l as [|x l IH]; [reflexivity|]. cbn [zlist_eqb]. rewrite Z.eqb_refl, IH. reflexivity. Qed.

Lemma val_eqb_refl : forall v, val_eqb v v = true.
Proof.
  fix IH 1. intros v. destruct v as [|b|z|z|l|l|l|z|z|l|l]; cbn [val_eqb];
    try reflexivity; try apply Z.eqb_refl; try apply zlist_eqb_refl.
  - destruct b; reflexivity.
  - induction l as [|x l IHl]; [reflexivity|]. rewrite IH, IHl. reflexivity.
  - induction l as [|x l IHl]; [reflexivity|]. rewrite IH, IHl. reflexivity.
Qed.

Lemma val_eqb_null_r v : val_eqb v VNull = true -> v = VNull.
Proof. destruct v; cbn [val_eqb]; intros H; try discriminate H. reflexivity. Qed.

Lemma codec_eqb_eq : forall a b, codec_eqb a b = true -> a = b.
Proof.
  induction a as [p|i n|c x IH]; intros [q|j m|d y] H; cbn [codec_eqb] in H; try discriminate H.
  - apply pcodec_eqb_eq in H. subst. reflexivity.
  - apply andb_true_iff in H. destruct H as [H1 H2].
    apply Nat.eqb_eq in H1. apply Bool.eqb_prop in H2. subst. reflexivity.
  - apply andb_true_iff in H. destruct H as [H1 H2].
    apply Bool.eqb_prop in H1. apply IH in H2. subst. reflexivity.
Qed.

Lemma refs_lt_sub i : forall w r, codec_sub w r = true -> refs_lt i w = true -> refs_lt i r = true.
Proof.
  induction w as [p|j n|c x IH]; intros [q|k m|d y] H Hw; cbn [codec_sub] in H; try discriminate H.
  - reflexivity.
  - apply andb_true_iff in H. destruct H as [H1 _]. apply Nat.eqb_eq in H1. subst. exact Hw.
  - apply andb_true_iff in H. destruct H as [_ H2]. cbn [refs_lt] in *. eapply IH; eassumption.
Qed.

Lemma items_nonempty_sub E : forall w r,
  codec_sub w r = true -> items_nonempty E w = true -> items_nonempty E r = true.
Proof.
  induction w as [p|j n|c x IH]; intros [q|k m|d y] H Hw; cbn [codec_sub] in H; try discriminate H;
    try reflexivity.
  apply andb_true_iff in H. destruct H as [_ H2]. cbn [items_nonempty] in *.
  apply andb_true_iff in Hw. destruct Hw as [Hw1 Hw2].
  rewrite (IH y H2 Hw1). cbn [andb].
  destruct x as [p|j n|c' x']; destruct y as [q|k m|d' y']; cbn [codec_sub] in H2;
    try discriminate H2; try reflexivity.
  apply andb_true_iff in H2. destruct H2 as [H3 H4].
  apply Nat.eqb_eq in H3. apply Bool.eqb_prop in H4. subst. exact Hw2.
Qed.

(* a codec whose every successful decode takes at least one byte *)
Definition item_ne (E : list cplan2) (c : codec) : bool :=
  match c with
  | CPrim p => pcodec_ok p
  | CArr _ _ => true
  | CEnt j n => n || match nth_error E j with Some cj => class_nonempty cj | None => false end
  end.

Lemma items_nonempty_item_ne E b item :
  items_nonempty E (CArr b item) = true -> codec_ok item = true -> item_ne E item = true.
Proof.
  cbn [items_nonempty]. intros H Hok. apply andb_true_iff in H. destruct H as [_ H].
  destruct item; cbn [item_ne codec_ok] in *; assumption.
Qed.

(* the reader-side field plan *)
Definition rp (f : fplan2) : fplan :=
  {| fp_name := f2_name f; fp_codec := f2_r f; fp_tag := f2_tag f; fp_default := f2_default f |}.

Lemma reader_plan_fields c : cp_fields (reader_plan c) = map rp (c2_fields c).
Proof. reflexivity. Qed.

Lemma find_tag_map t : forall fs g, find_tag t (map rp fs) = Some g ->
  exists f, In f fs /\ g = rp f /\ f2_tag f = Some t.
Proof.
  unfold find_tag. induction fs as [|f tl IH]; intros g H; cbn [map find] in H; [discriminate H|].
  cbn [fp_tag rp] in H. destruct (f2_tag f) as [t'|] eqn:Et.
  - destruct (t =? t') eqn:Ett.
    + apply Z.eqb_eq in Ett. subst t'. exists f. split; [left; reflexivity|].
      split; [congruence|exact Et].
    + destruct (IH g H) as (f' & Hin & Hg & Ht). exists f'. split; [right; exact Hin|]. tauto.
  - destruct (IH g H) as (f' & Hin & Hg & Ht). exists f'. split; [right; exact Hin|]. tauto.
Qed.

Lemma tags_of_in f t : forall fs, In f fs -> f2_tag f = Some t ->
  existsb (Z.eqb t) (tags_of fs) = true.
Proof.
  unfold tags_of. induction fs as [|g tl IH]; intros Hin Ht; [destruct Hin|].
  cbn [flat_map]. rewrite existsb_app. destruct Hin as [->|Hin].
  - rewrite Ht. cbn [existsb]. rewrite Z.eqb_refl. reflexivity.
  - rewrite (IH Hin Ht). apply orb_true_r.
Qed.

(* with distinct tags, the field a tag is looked up to is the field carrying that tag *)
Lemma find_tag_unique f t : forall fs, nodup_z (tags_of fs) = true -> In f fs ->
  f2_tag f = Some t -> find_tag t (map rp fs) = Some (rp f).
Proof.
  induction fs as [|g tl IH]; intros Hnd Hin Ht; [destruct Hin|].
  unfold find_tag in *. cbn [map find]. cbn [fp_tag rp].
  unfold tags_of in Hnd. cbn [flat_map] in Hnd.
  destruct (f2_tag g) as [t'|] eqn:Eg; cbn [app nodup_z] in Hnd.
  - apply andb_true_iff in Hnd. destruct Hnd as [Hn1 Hn2]. apply negb_true_iff in Hn1.
    destruct (t =? t') eqn:Ett.
    + apply Z.eqb_eq in Ett. subst t'. destruct Hin as [->|Hin]; [reflexivity|].
      pose proof (tags_of_in f t tl Hin Ht) as Hx. unfold tags_of in Hx. congruence.
    + destruct Hin as [->|Hin].
      * rewrite Ht in Eg. inversion Eg. subst. rewrite Z.eqb_refl in Ett. discriminate Ett.
      * apply IH; assumption.
  - destruct Hin as [->|Hin]; [congruence|]. apply IH; assumption.
Qed.

Lemma assoc_last_in t v : forall l, assoc_last t l = Some v -> In (t, v) l.
Proof.
  induction l as [|[t' v'] l IH]; intros H; cbn [assoc_last] in H; [discriminate H|].
  destruct (assoc_last t l) as [v0|].
  - right. apply IH. exact H.
  - destruct (t =? t') eqn:Ett; [|discriminate H]. apply Z.eqb_eq in Ett. left. congruence.
Qed.

Lemma keep_some_Forall {A} (P : A -> Prop) : forall l,
  Forall (fun o => match o with None => True | Some a => P a end) l -> Forall P (keep_some l).
Proof.
  induction 1 as [|o l Ho _ IH]; cbn [keep_some]; [constructor|].
  destruct o; [constructor; assumption|assumption].
Qed.

(* ========================================================================================== *)
(* One class, given the decoders of the classes of lower index                                *)
(* ========================================================================================== *)
Section DecSpec.
  Variable E : list cplan2.
  Variable ec : list Z.
  Variable fuel : nat.
  Variable dc : nat -> prog value.
  Variable tc : nat -> value -> bool.
  Variable bound : nat.
  Hypothesis Htc : forall j, tc j VNull = false.
  Hypothesis Hdc : forall j, (j < bound)%nat -> forall bs, (length bs < fuel)%nat ->
    spec (fun v => tc j v = true) (dc j) bs.
  Hypothesis Hne : forall j cj, nth_error E j = Some cj -> class_nonempty cj = true ->
    consumes (dc j).

  Lemma dec_codec_consumes c : item_ne E c = true -> consumes (dec_codec ec fuel dc c).
  Proof.
    intros H. destruct c as [p|j n|b item]; cbn [dec_codec item_ne] in *.
    - apply consumes_dec_prim, H.
    - destruct n.
      + apply consumes_bind_l, consumes_read_int. lia.
      + cbn [orb] in H. destruct (nth_error E j) as [cj|] eqn:Ej; [|discriminate H].
        eapply Hne; eassumption.
    - apply consumes_bind_l. destruct b; [apply consumes_read_compact_len|].
      apply consumes_read_int. lia.
  Qed.

  (* reader-side conditions on a field *)
  Definition rwf (f : fplan2) : Prop :=
    refs_lt bound (f2_r f) = true /\ items_nonempty E (f2_r f) = true /\ codec_ok (f2_r f) = true.

  Lemma dec_codec_spec : forall c,
    refs_lt bound c = true -> items_nonempty E c = true -> codec_ok c = true ->
    forall bs, (length bs < fuel)%nat ->
    spec (fun v => typed_codec ec tc c v = true) (dec_codec ec fuel dc c) bs.
  Proof.
    induction c as [p|j n|b item IH]; intros Hr Hi Hok bs Hlen; cbn [dec_codec].
    - apply spec_dec_prim. exact Hok.
    - cbn [refs_lt] in Hr. apply Nat.ltb_lt in Hr. destruct n.
      + eapply spec_bind; [apply (spec_read_int 1 true); lia|]. intros m r Hrun.
        apply run_residue_length in Hrun.
        destruct (m =? -1); [apply spec_ret; intros _; reflexivity|].
        destruct (m =? 1); [|apply spec_fail; reflexivity].
        eapply spec_weaken; [|apply Hdc; [exact Hr|lia]].
        intros v Hv _. cbn [typed_codec]. destruct v; try exact Hv. reflexivity.
      + eapply spec_weaken; [|apply Hdc; [exact Hr|exact Hlen]].
        intros v Hv. cbn [typed_codec]. destruct v; try exact Hv.
        rewrite Htc in Hv. discriminate Hv.
    - cbn [refs_lt codec_ok] in Hr, Hok.
      pose proof (items_nonempty_item_ne _ _ _ Hi Hok) as Hitem.
      cbn [items_nonempty] in Hi. apply andb_true_iff in Hi. destruct Hi as [Hi _].
      eapply spec_bind with
        (Q := fun len => len <= if b then 34359738366 else 2147483647).
      { destruct b.
        - unfold read_compact_len. eapply spec_bind; [apply spec_read_uvarint|].
          intros n r _. apply spec_ret. intros Hn. lia.
        - eapply spec_weaken; [|apply (spec_read_int 4 true); lia].
          intros z Hz. apply range_s4 in Hz. lia. }
      intros len r Hrun. apply run_residue_length in Hrun.
      destruct (len =? -1); [apply spec_ret; intros _; reflexivity|].
      eapply spec_bind.
      { apply (repeat_spec (fun v => typed_codec ec tc item v = true) fuel).
        - apply dec_codec_consumes, Hitem.
        - intros s Hs. apply IH; assumption.
        - lia.
        - lia. }
      intros l r' _. apply spec_ret. intros [HF Hl] HQ. cbn [typed_codec].
      apply andb_true_iff. split; [apply Forall_forallb, HF|].
      unfold uvarint_hi. change (2 ^ 35) with 34359738368.
      destruct b; apply Z.leb_le; lia.
  Qed.

  (* the values of the untagged fields, in order *)
  Fixpoint typed_regular (fs : list fplan2) (r : list value) : Prop :=
    match fs with
    | [] => r = []
    | f :: tl =>
        match f2_tag f with
        | Some _ => typed_regular tl r
        | None => match r with
                  | v :: r' => typed_codec ec tc (f2_r f) v = true /\ typed_regular tl r'
                  | [] => False
                  end
        end
    end.

  Lemma dec_regular_spec : forall fs, Forall rwf fs ->
    forall bs, (length bs < fuel)%nat ->
    spec (typed_regular fs) (dec_regular ec fuel dc (map rp fs)) bs.
  Proof.
    induction fs as [|f tl IH]; intros Hwf bs Hlen; cbn [map dec_regular typed_regular].
    - apply spec_ret. reflexivity.
    - inversion Hwf as [|f' tl' Hf Htl]; subst. cbn [fp_tag fp_codec rp].
      destruct (f2_tag f); [apply IH; assumption|].
      destruct Hf as (H1 & H2 & H3).
      eapply spec_bind; [apply dec_codec_spec; eassumption|]. intros v r Hrun.
      apply run_residue_length in Hrun.
      eapply spec_bind; [apply IH; [assumption|lia]|]. intros vs r' _.
      apply spec_ret. intros Hvs Hv. split; assumption.
  Qed.

  (* an entry of the tagged section: a value typed for the reader codec of the field the tag
     is looked up to *)
  Definition tag_ok (fs : list fplan2) (tv : Z * value) : Prop :=
    exists f, find_tag (fst tv) (map rp fs) = Some (rp f) /\
              typed_codec ec tc (f2_r f) (snd tv) = true.

  Lemma dec_one_tag_spec fs : Forall rwf fs -> forall bs, (length bs < fuel)%nat ->
    spec (fun o => match o with None => True | Some tv => tag_ok fs tv end)
         (dec_one_tag ec fuel dc (map rp fs)) bs.
  Proof.
    intros Hwf bs Hlen. unfold dec_one_tag.
    eapply spec_bind; [apply spec_read_uvarint|]. intros t r1 Hrun1.
    apply run_residue_length in Hrun1.
    eapply spec_bind; [apply spec_read_uvarint|]. intros sz r2 Hrun2.
    apply run_residue_length in Hrun2.
    destruct (find_tag t (map rp fs)) as [g|] eqn:Ef.
    - destruct (find_tag_map _ _ _ Ef) as (f & Hin & -> & Ht).
      rewrite Forall_forall in Hwf. destruct (Hwf f Hin) as (H1 & H2 & H3).
      cbn [fp_codec rp].
      eapply spec_bind; [apply dec_codec_spec; try eassumption; lia|]. intros v r3 _.
      apply spec_ret. intros Hv _ _. exists f. split; [exact Ef|exact Hv].
    - apply spec_read. apply spec_ret. intros _ _. exact I.
  Qed.

  Lemma dec_one_tag_consumes fs : consumes (dec_one_tag ec fuel dc fs).
  Proof. unfold dec_one_tag. apply consumes_bind_l, consumes_read_uvarint. Qed.

  (* what dec_entity returns *)
  Definition ent_shape (c : cplan2) (v : value) : Prop :=
    exists regular tags,
      v = VEnt (fill (map rp (c2_fields c)) regular tags) /\
      typed_regular (c2_fields c) regular /\ Forall (tag_ok (c2_fields c)) tags.

  Lemma dec_entity_spec c : Forall rwf (c2_fields c) ->
    forall bs, (length bs < fuel)%nat ->
    spec (ent_shape c) (dec_entity ec fuel dc (reader_plan c)) bs.
  Proof.
    intros Hwf bs Hlen. unfold dec_entity. cbv zeta. rewrite reader_plan_fields.
    cbn [cp_flexible reader_plan].
    destruct (negb (c2_flexible c) && has_tagged (map rp (c2_fields c)));
      [apply spec_fail; reflexivity|].
    eapply spec_bind; [apply dec_regular_spec; assumption|]. intros r s1 Hrun1.
    apply run_residue_length in Hrun1.
    destruct (c2_flexible c).
    - eapply spec_bind; [apply spec_read_uvarint|]. intros n s2 Hrun2.
      apply run_residue_length in Hrun2.
      eapply spec_bind.
      { apply (repeat_spec
                 (fun o => match o with None => True | Some tv => tag_ok (c2_fields c) tv end) fuel).
        - apply dec_one_tag_consumes.
        - intros s Hs. apply dec_one_tag_spec; assumption.
        - lia.
        - lia. }
      intros tags s3 _. apply spec_ret. intros [HF _] _ Hr.
      exists r, (keep_some tags). split; [reflexivity|]. split; [exact Hr|].
      apply keep_some_Forall. exact HF.
    - apply spec_ret. intros Hr. exists r, []. split; [reflexivity|]. split; [exact Hr|constructor].
  Qed.

  (* progress of a class: independent of the nested decoders' specs *)
  Lemma dec_regular_consumes : forall fs,
    Forall (fun f => f2_tag f = None -> f2_w f = f2_r f /\ codec_ok (f2_r f) = true) fs ->
    existsb field_nonempty fs = true -> consumes (dec_regular ec fuel dc (map rp fs)).
  Proof.
    induction fs as [|f tl IH]; intros Hwf Hex; cbn [existsb] in Hex; [discriminate Hex|].
    inversion Hwf as [|f' tl' Hf Htl]; subst.
    cbn [map dec_regular]. cbn [fp_tag fp_codec rp]. unfold field_nonempty in Hex at 1.
    destruct (f2_tag f) as [t|].
    - cbn [orb] in Hex. apply IH; assumption.
    - destruct (Hf eq_refl) as [Hwr Hok]. rewrite Hwr in Hex.
      apply orb_true_iff in Hex. destruct Hex as [Hex|Hex].
      + apply consumes_bind_l. apply dec_codec_consumes.
        destruct (f2_r f) as [p|j n|b item]; cbn [item_ne codec_ok] in *.
        * exact Hok.
        * rewrite Hex. reflexivity.
        * reflexivity.
      + apply consumes_bind_r. intros v. apply consumes_bind_l. apply IH; assumption.
  Qed.

  Lemma dec_entity_consumes c :
    Forall (fun f => f2_tag f = None -> f2_w f = f2_r f /\ codec_ok (f2_r f) = true) (c2_fields c) ->
    class_nonempty c = true -> consumes (dec_entity ec fuel dc (reader_plan c)).
  Proof.
    intros Hwf Hne'. unfold dec_entity. cbv zeta. rewrite reader_plan_fields.
    cbn [cp_flexible reader_plan].
    destruct (negb (c2_flexible c) && has_tagged (map rp (c2_fields c)));
      [apply consumes_fail|].
    unfold class_nonempty in Hne'. destruct (c2_flexible c).
    - apply consumes_bind_r. intros r. apply consumes_bind_l, consumes_read_uvarint.
    - cbn [orb] in Hne'. apply consumes_bind_l. apply dec_regular_consumes; assumption.
  Qed.
End DecSpec.

(* ========================================================================================== *)
(* Well-formed environments                                                                   *)
(* ========================================================================================== *)

Lemma wf_from_nth E : forall l k j c,
  wf_from E k l = true -> nth_error l j = Some c -> wf_class E (k + j) c = true.
Proof.
  induction l as [|c0 l IH]; intros k j c H Hn; [destruct j; discriminate Hn|].
  cbn [wf_from] in H. apply andb_true_iff in H. destruct H as [H1 H2].
  destruct j as [|j]; cbn [nth_error] in Hn.
  - inversion Hn. subst. rewrite Nat.add_0_r. exact H1.
  - replace (k + S j)%nat with (S k + j)%nat by lia. eapply IH; eassumption.
Qed.

Lemma wf_env_nth E i c : wf_env E = true -> nth_error E i = Some c -> wf_class E i c = true.
Proof. intros H Hn. apply (wf_from_nth E E 0 i c H Hn). Qed.

Lemma wf_field_inv E i fl f : wf_field E i fl f = true ->
  codec_sub (f2_w f) (f2_r f) = true /\ refs_lt i (f2_w f) = true /\
  items_nonempty E (f2_w f) = true /\ codec_ok (f2_w f) = true /\ codec_ok (f2_r f) = true /\
  match f2_tag f with
  | None => codec_eqb (f2_w f) (f2_r f) = true
  | Some _ => codec_eqb (f2_w f) (f2_r f) || val_eqb (f2_default f) VNull = true
  end.
Proof.
  unfold wf_field. intros H. apply andb_true_iff in H. destruct H as [H _]. unfold wf_field0 in H.
  repeat (apply andb_true_iff in H; let H' := fresh "H" in destruct H as [H H']).
  repeat split; try assumption.
  destruct (f2_tag f); [|assumption].
  apply andb_true_iff in H0. destruct H0 as [_ H0]. exact H0.
Qed.

Lemma wf_field_rwf E i fl f : wf_field E i fl f = true -> rwf E i f.
Proof.
  intros H. apply wf_field_inv in H. destruct H as (H1 & H2 & H3 & H4 & H5 & _).
  split; [eapply refs_lt_sub; eassumption|]. split; [eapply items_nonempty_sub; eassumption|].
  exact H5.
Qed.

Lemma wf_class_fields E i c : wf_class E i c = true ->
  Forall (fun f => wf_field E i (c2_flexible c) f = true) (c2_fields c) /\
  nodup_z (tags_of (c2_fields c)) = true.
Proof.
  unfold wf_class. intros H. apply andb_true_iff in H. destruct H as [H1 H2].
  split; [|exact H2]. apply Forall_forall. rewrite forallb_forall in H1. exact H1.
Qed.

Lemma wf_class_rwf E i c : wf_class E i c = true -> Forall (rwf E i) (c2_fields c).
Proof.
  intros H. apply wf_class_fields in H. destruct H as [H _].
  eapply Forall_impl; [|exact H]. intros f. apply wf_field_rwf.
Qed.

Lemma wf_class_regular E i c : wf_class E i c = true ->
  Forall (fun f => f2_tag f = None -> f2_w f = f2_r f /\ codec_ok (f2_r f) = true) (c2_fields c).
Proof.
  intros H. apply wf_class_fields in H. destruct H as [H _].
  eapply Forall_impl; [|exact H]. intros f Hf Ht. apply wf_field_inv in Hf.
  destruct Hf as (_ & _ & _ & _ & H5 & H6). rewrite Ht in H6.
  split; [apply codec_eqb_eq, H6|exact H5].
Qed.

Lemma dec_class_consumes E ec fuel : wf_env E = true ->
  forall r j cj, nth_error E j = Some cj -> class_nonempty cj = true ->
  consumes (dec_class (map reader_plan E) ec fuel r j).
Proof.
  intros Hwf. induction r as [|r IH]; intros j cj Hj Hc; cbn [dec_class];
    [apply consumes_fail|].
  rewrite (map_nth_error reader_plan _ _ Hj).
  apply (dec_entity_consumes E); [exact IH| |exact Hc].
  eapply wf_class_regular, wf_env_nth; eassumption.
Qed.

(* ========================================================================================== *)
(* All classes, by induction on the rank                                                      *)
(* ========================================================================================== *)
Section Top.
  Variable E : list cplan2.
  Variable ec : list Z.
  Variable fuel : nat.
  Hypothesis Hwf : wf_env E = true.
  Variable tcs : nat -> nat -> value -> bool.        (* rank, class index *)
  Hypothesis Hnull : forall r j, tcs r j VNull = false.
  Hypothesis Hstep : forall r i c v, nth_error E i = Some c ->
    ent_shape ec (tcs r) c v -> tcs (S r) i v = true.

  Lemma dec_class_spec : forall r i, (i < r)%nat -> (i < length E)%nat ->
    forall bs, (length bs < fuel)%nat ->
    spec (fun v => tcs r i v = true) (dec_class (map reader_plan E) ec fuel r i) bs.
  Proof.
    induction r as [|r IH]; intros i Hir HiE bs Hlen; [lia|]. cbn [dec_class].
    destruct (nth_error E i) as [c|] eqn:Ei; [|apply nth_error_None in Ei; lia].
    rewrite (map_nth_error reader_plan _ _ Ei).
    eapply spec_weaken; [intros v; apply (Hstep r i c v Ei)|].
    apply (dec_entity_spec E ec fuel _ (tcs r) i).
    - apply Hnull.
    - intros j Hj bs' Hl. apply IH; lia.
    - intros j cj Hj Hc. eapply dec_class_consumes; eassumption.
    - eapply wf_class_rwf, wf_env_nth; eassumption.
    - exact Hlen.
  Qed.
End Top.

(* ---- G1 ---- *)
Definition is_ent (v : value) : bool := match v with VEnt _ => true | _ => false end.

Theorem decode_errors_permitted : forall (E : list cplan2) (ec : list Z), wf_env E = true ->
  forall i bs fuel e, (i < length E)%nat -> (length bs < fuel)%nat ->
  run (decoder (map reader_plan E) ec i fuel) bs = Err e -> permitted e = true.
Proof.
  intros E ec Hwf i bs fuel e Hi Hlen H. unfold decoder in H.
  pose proof (dec_class_spec E ec fuel Hwf (fun _ _ => is_ent)) as Sp.
  specialize (Sp (fun _ _ => eq_refl)).
  assert (St: forall (r i : nat) c v, nth_error E i = Some c ->
            ent_shape ec (fun _ => is_ent) c v -> is_ent v = true).
  { intros r j c v _ (regular & tags & -> & _). reflexivity. }
  specialize (Sp St (S i) i ltac:(lia) Hi bs Hlen). unfold spec in Sp. rewrite H in Sp. exact Sp.
Qed.
Print Assumptions decode_errors_permitted.

(* ---- G4: truncation ---- *)
Corollary decode_prefix_underflow : forall E ec, wf_env E = true ->
  forall i c tl v fuel, (i < length E)%nat -> (length (c ++ tl) < fuel)%nat ->
  run (decoder (map reader_plan E) ec i fuel) (c ++ tl) = Ok (v, tl) ->
  forall k, (k < length c)%nat ->
  decode (map reader_plan E) ec i (firstn k c) = Err EUnderflow.
Proof.
  intros E ec Hwf i c tl v fuel Hi Hlen H k Hk.
  pose proof (run_prefix_underflow _ _ _ _ H k Hk) as Hu.
  unfold decode.
  assert (Hf: (S (length (firstn k c)) <= fuel)%nat).
  { rewrite firstn_length. rewrite app_length in Hlen. lia. }
  destruct (fuel_lower E ec i _ _ (firstn k c) Hf) as [Heq|Hgas].
  - rewrite Heq. exact Hu.
  - apply decode_errors_permitted in Hgas; [discriminate Hgas|exact Hwf|exact Hi|lia].
Qed.
Print Assumptions decode_prefix_underflow.

(* ========================================================================================== *)
(* G2: typing of the result                                                                   *)
(* ========================================================================================== *)

(* For array-valued fields the reader and writer item codecs must coincide: codec_sub lets them
   differ in nullability at any depth, but a null ITEM read by a nullable item reader is neither
   the field's default nor a value the non-nullable item writer accepts (see the counterexample
   below).  Implied by codec_eqb, hence only a restriction on tagged fields. *)
Definition tagged_arrays_exact (E : list cplan2) : bool :=
  forallb (fun c => forallb (fun f => arr_items_eq (f2_w f) (f2_r f)) (c2_fields c)) E.

Section Fill.
  Variable ec : list Z.
  Variable tc : nat -> value -> bool.

  Lemma typed_codec_sub w r v : codec_sub w r = true -> arr_items_eq w r = true ->
    typed_codec ec tc r v = true -> typed_codec ec tc w v = true \/ v = VNull.
  Proof.
    intros Hs Ha Ht. destruct w as [p|i n|c x]; destruct r as [q|j m|d y];
      cbn [codec_sub arr_items_eq] in Hs, Ha; try discriminate Hs.
    - cbn [typed_codec] in *. eapply prim_typed_sub; eassumption.
    - apply andb_true_iff in Hs. destruct Hs as [H1 H2].
      apply Nat.eqb_eq in H1. apply Bool.eqb_prop in H2. subst. left. exact Ht.
    - apply andb_true_iff in Hs. destruct Hs as [H1 _].
      apply Bool.eqb_prop in H1. apply codec_eqb_eq in Ha. subst. left. exact Ht.
  Qed.

  (* what the field-wise typing needs of a field *)
  Definition fcond (f : fplan2) : Prop :=
    match f2_tag f with
    | None => f2_w f = f2_r f
    | Some _ => forall v, typed_codec ec tc (f2_r f) v = true ->
                  val_eqb v (f2_default f) = true \/ typed_codec ec tc (f2_w f) v = true
    end.

  Lemma wf_field_fcond E i fl f : wf_field E i fl f = true ->
    arr_items_eq (f2_w f) (f2_r f) = true -> fcond f.
  Proof.
    intros H Ha. apply wf_field_inv in H. destruct H as (H1 & _ & _ & _ & _ & H6).
    unfold fcond. destruct (f2_tag f) as [t|]; [|apply codec_eqb_eq, H6].
    intros v Hv. destruct (typed_codec_sub _ _ _ H1 Ha Hv) as [Hw| ->]; [right; exact Hw|].
    apply orb_true_iff in H6. destruct H6 as [H6|H6].
    - apply codec_eqb_eq in H6. right. rewrite H6. exact Hv.
    - apply val_eqb_null_r in H6. left. rewrite H6. reflexivity.
  Qed.

  Lemma fill_typed tags : forall fs regular,
    (forall f t v, In f fs -> f2_tag f = Some t -> assoc_last t tags = Some v ->
                   typed_codec ec tc (f2_r f) v = true) ->
    Forall fcond fs -> typed_regular ec tc fs regular ->
    typed_fields ec tc fs (fill (map rp fs) regular tags) = true.
  Proof.
    induction fs as [|f tl IH]; intros regular Ht Hc Hr; cbn [map fill]; [reflexivity|].
    inversion Hc as [|f' tl' Hf Htl]; subst. cbn [fp_tag rp fp_default].
    cbn [typed_regular] in Hr. unfold fcond in Hf.
    destruct (f2_tag f) as [t|] eqn:Et.
    - cbn [typed_fields]. rewrite Et. apply andb_true_iff. split.
      + destruct (assoc_last t tags) as [v|] eqn:Ea.
        * specialize (Ht f t v (or_introl eq_refl) Et Ea).
          destruct (Hf v Ht) as [Hd|Hw]; [rewrite Hd; reflexivity|rewrite Hw; apply orb_true_r].
        * rewrite val_eqb_refl. reflexivity.
      + apply IH; [|assumption|assumption].
        intros f0 t0 v0 Hin. apply Ht. right. exact Hin.
    - destruct regular as [|v regular]; [destruct Hr|]. destruct Hr as [Hv Hr].
      cbn [typed_fields]. rewrite Et, Hf, Hv. cbn [andb].
      apply IH; [|assumption|assumption].
      intros f0 t0 v0 Hin. apply Ht. right. exact Hin.
  Qed.

  Lemma ent_shape_typed c v :
    Forall fcond (c2_fields c) -> nodup_z (tags_of (c2_fields c)) = true ->
    ent_shape ec tc c v -> typed_entity ec tc c v = true.
  Proof.
    intros Hc Hnd (regular & tags & -> & Hr & Ht). cbn [typed_entity].
    apply fill_typed; [|assumption|assumption].
    intros f t v Hin Hft Ha. apply assoc_last_in in Ha.
    rewrite Forall_forall in Ht. destruct (Ht _ Ha) as (f0 & Hfind & Hv).
    cbn [fst snd] in *.
    rewrite (find_tag_unique f t _ Hnd Hin Hft) in Hfind.
    assert (Heq: f2_r f = f2_r f0).
    { change (fp_codec (rp f) = fp_codec (rp f0)). congruence. }
    rewrite Heq. exact Hv.
  Qed.
End Fill.

Lemma typed_class_null E ec r j : typed_class E ec r j VNull = false.
Proof. destruct r; cbn [typed_class]; [reflexivity|]. destruct (nth_error E j); reflexivity. Qed.

Theorem decode_typed_partial : forall E ec, wf_env E = true -> tagged_arrays_exact E = true ->
  forall i bs fuel v rest, (i < length E)%nat -> (length bs < fuel)%nat -> bytes_ok bs = true ->
  run (decoder (map reader_plan E) ec i fuel) bs = Ok (v, rest) -> typed E ec i v = true.
Proof.
  intros E ec Hwf Hx i bs fuel v rest Hi Hlen Hb H. unfold decoder in H. unfold typed.
  pose proof (dec_class_spec E ec fuel Hwf (typed_class E ec) (typed_class_null E ec)) as Sp.
  assert (St: forall r j c v, nth_error E j = Some c ->
            ent_shape ec (typed_class E ec r) c v -> typed_class E ec (S r) j v = true).
  { intros r j c v0 Hj Hs. cbn [typed_class]. rewrite Hj.
    pose proof (wf_env_nth _ _ _ Hwf Hj) as Hc. apply wf_class_fields in Hc.
    destruct Hc as [Hfs Hnd].
    apply ent_shape_typed; [|exact Hnd|exact Hs].
    unfold tagged_arrays_exact in Hx. rewrite forallb_forall in Hx.
    specialize (Hx c (nth_error_In _ _ Hj)). rewrite forallb_forall in Hx.
    rewrite Forall_forall in Hfs |- *. intros f Hin.
    eapply wf_field_fcond; [apply Hfs, Hin|apply Hx, Hin]. }
  specialize (Sp St (S i) i ltac:(lia) Hi bs Hlen). unfold spec in Sp. rewrite H in Sp.
  apply Sp, Hb.
Qed.
Print Assumptions decode_typed_partial.

(* ---- the extra hypothesis is needed: decode_typed as originally stated is false ----
   A flexible class with one tagged field "tuple[str | None, ...]": get_field_reader builds the
   item reader from is_optional (nullable), get_field_writer is called with optional=False for a
   tagged field (non-nullable item writer).  wf_env accepts the plan (codec_sub holds, the
   default is null), yet the bytes  01 | 00 02 | 02 00  (one tagged entry: tag 0, size 2, a
   compact array of one null string) decode to an instance holding (None,), which is not the
   default and which the writer codec rejects. *)
Definition cex_field : fplan2 :=
  {| f2_name := Strings.String.EmptyString;
     f2_r := CArr true (CPrim (PStr true true));
     f2_w := CArr true (CPrim (PStr true false));
     f2_tag := Some 0; f2_default := VNull |}.
Definition cex_env : list cplan2 :=
  [ {| c2_name := Strings.String.EmptyString; c2_flexible := true; c2_fields := [cex_field] |} ].
Definition cex_bytes : list Z := [1; 0; 2; 2; 0].

(* why wf_env demands arr_items_eq: without it this environment would be accepted, and the
   decoder returns a value the encoder cannot take *)
Example decode_typed_needs_exact_arrays :
  wf_env cex_env = false /\ tagged_arrays_exact cex_env = false /\
  forallb (fun c => forallb (wf_field0 cex_env 0 (c2_flexible c)) (c2_fields c)) cex_env = true /\
  bytes_ok cex_bytes = true /\
  decode (map reader_plan cex_env) [] 0 cex_bytes = Ok (VEnt [VArr [VNull]], []) /\
  typed cex_env [] 0 (VEnt [VArr [VNull]]) = false.
Proof. vm_compute. repeat split; reflexivity. Qed.

Lemma wf_env_tagged_arrays_exact E : wf_env E = true -> tagged_arrays_exact E = true.
Proof.
  intros Hwf. unfold tagged_arrays_exact. apply forallb_forall. intros c Hc.
  apply In_nth_error in Hc. destruct Hc as [j Hj].
  pose proof (wf_env_nth _ _ _ Hwf Hj) as Hwc. unfold wf_class in Hwc.
  apply andb_true_iff in Hwc. destruct Hwc as [Hfs _].
  apply forallb_forall. intros f Hf. rewrite forallb_forall in Hfs. specialize (Hfs f Hf).
  unfold wf_field in Hfs. apply andb_true_iff in Hfs. destruct Hfs as [_ Hx].
  apply andb_true_iff in Hx. destruct Hx as [Hx _]. exact Hx.
Qed.

(* G2 *)
Theorem decode_typed : forall E ec, wf_env E = true ->
  forall i bs fuel v rest, (i < length E)%nat -> (length bs < fuel)%nat -> bytes_ok bs = true ->
  run (decoder (map reader_plan E) ec i fuel) bs = Ok (v, rest) -> typed E ec i v = true.
Proof.
  intros E ec Hwf. apply decode_typed_partial; [exact Hwf|]. apply wf_env_tagged_arrays_exact. exact Hwf.
Qed.
Print Assumptions decode_typed.

