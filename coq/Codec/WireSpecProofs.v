(* C02: the encoder's output is the Kafka wire format of Codec/WireSpec.v, byte for byte.
   Primitives: the implementation-shaped definitions (shift/mask varint loop, recursive
   big-endian bytes, divmod rounding) equal the closed-form specification.
   Entities: the insertion sort of (tag, (codec, value)) entries and the stdlib merge sort of
   (tag, payload) pairs produce the same tagged section; writer codec vs reader codec. *)
From Coq Require Import ZArith List Bool Lia Permutation Sorting.Sorted Sorting.Mergesort.
From KioV Require Import Base.Res Prim.Bytes Prim.Varint Prim.Time
  Prim.BytesProofs Prim.VarintProofs
  Codec.Value Codec.PrimCodec Codec.PrimCodecProofs Codec.Writer
  Schema.Introspect Codec.Typed Codec.RoundtripProofs Codec.WireSpec.
Import ListNotations.
Open Scope Z_scope.

(* ------------------------------------------------------------------------------------------ *)
(* big-endian bytes *)
Lemma be_bytes_spec_gen : forall w u, be_bytes w u = spec_be w u.
Proof.
  unfold spec_be. induction w as [|w IH]; intros u; [reflexivity|].
  cbn [be_bytes]. rewrite IH, seq_S, map_app. cbn [map plus]. f_equal.
  - apply map_ext_in. intros k Hk. apply in_seq in Hk.
    replace (S w - 1 - k)%nat with (S (w - 1 - k)) by lia.
    rewrite Nat2Z.inj_succ, Z.pow_succ_r by lia.
    rewrite Z.div_div; [reflexivity|lia|]. apply Z.pow_pos_nonneg; lia.
  - replace (S w - 1 - w)%nat with O by lia. cbn [Z.of_nat]. rewrite Z.pow_0_r, Z.div_1_r.
    reflexivity.
Qed.

Lemma be_bytes_spec : forall w u, 0 <= u -> be_bytes w u = spec_be w u.
Proof. intros w u _. apply be_bytes_spec_gen. Qed.

Lemma write_int_spec : forall w s z, write_int w s z = spec_int w s z.
Proof.
  intros w s z. unfold write_int, spec_int, in_int_range, int_lo, int_hi.
  rewrite be_bytes_spec_gen. reflexivity.
Qed.

(* ------------------------------------------------------------------------------------------ *)
(* unsigned varints *)
Lemma lor128 c : 0 <= c < 128 -> Z.lor 128 c = c + 128.
Proof.
  intros Hc. rewrite <- Z.lxor_lor, <- Z.add_nocarry_lxor; try lia;
    rewrite Z.land_comm; apply small_land128; exact Hc.
Qed.

Definition spec_digits (k : nat) (n : Z) : list Z :=
  map (fun i => let g := (n / 128 ^ Z.of_nat i) mod 128 in
                if Nat.eqb (S i) k then g else g + 128) (seq 0 k).

Lemma wv_digits : forall fuel v, 0 <= v < 2 ^ (7 * Z.of_nat fuel + 7) ->
  (fuel = O \/ 2 ^ (7 * Z.of_nat fuel) <= v) -> wv fuel v = spec_digits (S fuel) v.
Proof.
  unfold spec_digits. induction fuel as [|f IH]; intros v Hv Hlo.
  - cbn [wv seq map Nat.eqb Z.of_nat]. rewrite land127, Z.pow_0_r, Z.div_1_r. reflexivity.
  - destruct Hlo as [Hlo|Hlo]; [discriminate|].
    assert (Hp: 0 < 2 ^ (7 * Z.of_nat f)) by (apply Z.pow_pos_nonneg; lia).
    assert (E1: 2 ^ (7 * Z.of_nat (S f)) = 128 * 2 ^ (7 * Z.of_nat f)).
    { replace (7 * Z.of_nat (S f)) with (7 + 7 * Z.of_nat f) by lia.
      rewrite Z.pow_add_r by lia. reflexivity. }
    assert (E2: 2 ^ (7 * Z.of_nat (S f) + 7) = 128 * 2 ^ (7 * Z.of_nat f + 7)).
    { replace (7 * Z.of_nat (S f) + 7) with (7 + (7 * Z.of_nat f + 7)) by lia.
      rewrite Z.pow_add_r by lia. reflexivity. }
    rewrite E1 in Hlo. rewrite E2 in Hv.
    assert (Hq: 2 ^ (7 * Z.of_nat f) <= v / 128 < 2 ^ (7 * Z.of_nat f + 7)).
    { split; [apply Z.div_le_lower_bound; lia|apply Z.div_lt_upper_bound; lia]. }
    cbn [wv]. rewrite Z.shiftr_div_pow2 by lia. change (2 ^ 7) with 128.
    destruct (Z.eqb_spec (v / 128) 0) as [Hz|_]; [lia|].
    rewrite land127, lor128 by (apply Z.mod_pos_bound; lia).
    rewrite IH; [|lia|right; lia].
    change (seq 0 (S (S f))) with (0%nat :: seq 1 (S f)).
    rewrite <- seq_shift, map_cons, map_map. f_equal.
    + cbn [Z.of_nat Nat.eqb]. rewrite Z.pow_0_r, Z.div_1_r. reflexivity.
    + apply map_ext. intros k. cbv zeta.
      rewrite (Nat2Z.inj_succ k), Z.pow_succ_r by lia.
      rewrite Z.div_div; [|lia|apply Z.pow_pos_nonneg; lia].
      change (Nat.eqb (S (S k)) (S (S f))) with (Nat.eqb (S k) (S f)). reflexivity.
Qed.

Lemma spec_groups_S n : spec_groups n = S (Z.to_nat (Z.log2 n / 7)).
Proof.
  unfold spec_groups. pose proof (Z.log2_nonneg n).
  assert (0 <= Z.log2 n / 7) by (apply Z.div_pos; lia).
  rewrite <- Z2Nat.inj_succ by assumption. reflexivity.
Qed.

Lemma uvarint_bytes_spec : forall n, 0 <= n -> uvarint_bytes n = spec_uvarint n.
Proof.
  intros n Hn. unfold uvarint_bytes, spec_uvarint. rewrite spec_groups_S.
  apply wv_digits; [split; [exact Hn|apply fuel_bound; exact Hn]|].
  destruct (Z.to_nat (Z.log2 n / 7)) as [|k] eqn:Ek; [left; reflexivity|right].
  destruct (Z.eqb_spec n 0) as [->|Hnz]; [cbn in Ek; discriminate|].
  rewrite <- Ek. clear k Ek.
  pose proof (Z.log2_nonneg n).
  assert (0 <= Z.log2 n / 7) by (apply Z.div_pos; lia).
  rewrite Z2Nat.id by assumption.
  pose proof (Z.log2_spec n ltac:(lia)) as [Hl _].
  eapply Z.le_trans; [|exact Hl]. apply Z.pow_le_mono_r; [lia|].
  pose proof (Z.div_mod (Z.log2 n) 7 ltac:(lia)). pose proof (Z.mod_pos_bound (Z.log2 n) 7 ltac:(lia)).
  lia.
Qed.

Lemma write_len_compact_spec n : write_len_compact n = spec_len_compact n.
Proof.
  unfold write_len_compact, spec_len_compact, uvarint_hi.
  destruct (Z.leb_spec 0 n); cbn [andb]; [|reflexivity].
  rewrite uvarint_bytes_spec by assumption. reflexivity.
Qed.

(* ------------------------------------------------------------------------------------------ *)
(* rounding to milliseconds *)
Lemma round_half_even_spec : forall us, round_half_even_1000 us = spec_millis us.
Proof.
  intros us. unfold round_half_even_1000, spec_millis. cbv zeta.
  rewrite Z.mod_eq by lia. rewrite <- Z.negb_even.
  replace (us - us / 1000 * 1000) with (us - 1000 * (us / 1000)) by lia.
  set (r := us - 1000 * (us / 1000)).
  destruct (Z.ltb_spec r 500); destruct (Z.ltb_spec 500 r); destruct (Z.eqb_spec r 500);
    destruct (Z.even (us / 1000)); cbn [orb andb negb]; try reflexivity; lia.
Qed.

(* ------------------------------------------------------------------------------------------ *)
(* every primitive codec, every value *)
Lemma write_string_like_spec c n w v :
  write_string_like c n w v =
  match v with
  | VNull => spec_blob c n w None
  | VStr b | VBytes b => spec_blob c n w (Some b)
  | _ => Err EType
  end.
Proof.
  assert (Hb: forall b : list Z, (if c then write_compact_blob b else write_legacy_blob w b)
                                 = spec_blob c n w (Some b)).
  { intros b. unfold spec_blob. destruct c.
    - unfold write_compact_blob. rewrite write_len_compact_spec. reflexivity.
    - unfold write_legacy_blob, in_int_range, int_lo, int_hi. rewrite write_int_spec.
      assert (0 <= 2 ^ (8 * Z.of_nat w - 1)) by (apply Z.pow_nonneg; lia).
      replace (- 2 ^ (8 * Z.of_nat w - 1) <=? zlen b) with true
        by (symmetry; apply Z.leb_le; unfold zlen; lia).
      reflexivity. }
  destruct v; cbn [write_string_like blob_of]; try reflexivity; try apply Hb.
  unfold spec_blob. rewrite write_int_spec. reflexivity.
Qed.

Lemma enc_prim_spec : forall p v, enc_prim p v = spec_prim p v.
Proof.
  intros p v.
  destruct p; destruct v; cbn [enc_prim spec_prim write_timedelta write_datetime];
    rewrite ?write_string_like_spec, ?write_int_spec, ?round_half_even_spec; reflexivity.
Qed.
Print Assumptions enc_prim_spec.

(* ------------------------------------------------------------------------------------------ *)
(* ascending tag order: insertion sort and merge sort agree on distinct tags *)
Definition tle {B} (a b : Z * B) : Prop := fst a <= fst b.

Lemma StronglySorted_impl {A} (R1 R2 : A -> A -> Prop) : (forall a b, R1 a b -> R2 a b) ->
  forall l, StronglySorted R1 l -> StronglySorted R2 l.
Proof.
  intros Himp l H. induction H as [|a l Hs IH Hf]; constructor; [exact IH|].
  eapply Forall_impl; [|exact Hf]. intros b. apply Himp.
Qed.

Lemma LocallySorted_impl {A} (R1 R2 : A -> A -> Prop) : (forall a b, R1 a b -> R2 a b) ->
  forall l, LocallySorted R1 l -> LocallySorted R2 l.
Proof. intros Himp l H. induction H; constructor; auto. Qed.

Lemma insert_by_tag_sorted {A} (x : Z * A) : forall l,
  StronglySorted tle l -> StronglySorted tle (insert_by_tag x l).
Proof.
  induction l as [|y tl IH]; intros H; cbn [insert_by_tag].
  - constructor; constructor.
  - apply StronglySorted_inv in H. destruct H as [Hs Hf].
    destruct (Z.leb_spec (fst x) (fst y)) as [Hle|Hgt].
    + constructor; [constructor; assumption|]. constructor; [exact Hle|].
      eapply Forall_impl; [|exact Hf]. unfold tle. intros b Hb. lia.
    + constructor; [apply IH; exact Hs|].
      apply (Permutation_Forall (Permutation_sym (insert_by_tag_perm x tl))).
      constructor; [unfold tle; lia|exact Hf].
Qed.

Lemma sort_by_tag_sorted {A} : forall l : list (Z * A), StronglySorted tle (sort_by_tag l).
Proof.
  induction l as [|x l IH]; cbn [sort_by_tag]; [constructor|].
  apply insert_by_tag_sorted. exact IH.
Qed.

Lemma tle_trans : RelationClasses.Transitive (fun x y : Z * list Z => is_true (fst x <=? fst y)).
Proof.
  intros a b c H1 H2. unfold is_true in *. apply Z.leb_le in H1, H2. apply Z.leb_le. lia.
Qed.

Lemma tagsort_sorted l : StronglySorted tle (TagSort.sort l).
Proof.
  eapply StronglySorted_impl; [|apply TagSort.StronglySorted_sort; exact tle_trans].
  intros a b H. apply Z.leb_le. exact H.
Qed.

(* a sorted list with pairwise distinct keys is determined by its elements *)
Lemma sorted_unique {B} : forall l1 l2 : list (Z * B),
  StronglySorted tle l1 -> StronglySorted tle l2 -> Permutation l1 l2 ->
  NoDup (map fst l1) -> l1 = l2.
Proof.
  induction l1 as [|a l1 IH]; intros l2 H1 H2 Hp Hnd.
  - apply Permutation_nil in Hp. congruence.
  - destruct l2 as [|b l2]; [apply Permutation_sym, Permutation_nil in Hp; discriminate|].
    apply StronglySorted_inv in H1. destruct H1 as [Hs1 Hf1].
    apply StronglySorted_inv in H2. destruct H2 as [Hs2 Hf2].
    cbn [map] in Hnd. apply NoDup_cons_iff in Hnd. destruct Hnd as [Hna Hnd].
    assert (Hab: a = b).
    { assert (Ha: In a (b :: l2)) by (eapply Permutation_in; [exact Hp|left; reflexivity]).
      assert (Hb: In b (a :: l1))
        by (eapply Permutation_in; [apply Permutation_sym; exact Hp|left; reflexivity]).
      destruct Ha as [Ha|Ha]; [congruence|]. destruct Hb as [Hb|Hb]; [congruence|].
      rewrite Forall_forall in Hf1, Hf2. apply Hf1 in Hb as Hle1. apply Hf2 in Ha as Hle2.
      unfold tle in *. exfalso. apply Hna. replace (fst a) with (fst b) by lia.
      apply in_map. exact Hb. }
    subst b. f_equal. apply IH; try assumption. eapply Permutation_cons_inv. exact Hp.
Qed.

Lemma map_sorted {A B} (h : Z * A -> Z * B) : (forall e, fst (h e) = fst e) ->
  forall l, StronglySorted tle l -> StronglySorted tle (map h l).
Proof.
  intros Hh l H. induction H as [|a l Hs IH Hf]; cbn [map]; constructor; [exact IH|].
  apply Forall_forall. intros y Hy. apply in_map_iff in Hy. destruct Hy as [x [<- Hx]].
  rewrite Forall_forall in Hf. apply Hf in Hx. unfold tle in *. rewrite !Hh. exact Hx.
Qed.

(* sorting commutes with computing the payloads *)
Theorem sort_map_commute {A} (h : Z * A -> Z * list Z) : (forall e, fst (h e) = fst e) ->
  forall l, NoDup (map fst l) -> map h (sort_by_tag l) = TagSort.sort (map h l).
Proof.
  intros Hh l Hnd. apply sorted_unique.
  - apply map_sorted; [exact Hh|apply sort_by_tag_sorted].
  - apply tagsort_sorted.
  - eapply Permutation_trans; [apply Permutation_map; apply sort_by_tag_perm|].
    apply TagSort.Permuted_sort.
  - rewrite map_map. rewrite (map_ext _ fst) by exact Hh.
    eapply Permutation_NoDup; [|exact Hnd].
    apply Permutation_map. apply Permutation_sym. apply sort_by_tag_perm.
Qed.

(* clause: the tagged section is in ascending tag order; strictly ascending when the tags are
   pairwise distinct *)
Lemma spec_entries_sorted : forall l,
  Sorted.LocallySorted (fun a b => fst a <= fst b) (TagSort.sort l).
Proof.
  intros l. eapply LocallySorted_impl; [|apply TagSort.LocallySorted_sort].
  intros a b H. apply Z.leb_le. exact H.
Qed.

Lemma spec_entries_strongly_sorted : forall l,
  Sorted.StronglySorted (fun a b => fst a <= fst b) (TagSort.sort l).
Proof. exact tagsort_sorted. Qed.

Lemma sorted_strict {B} : forall l : list (Z * B), StronglySorted tle l -> NoDup (map fst l) ->
  StronglySorted (fun a b => fst a < fst b) l.
Proof.
  intros l H. induction H as [|a l Hs IH Hf]; intros Hnd; constructor;
    cbn [map] in Hnd; apply NoDup_cons_iff in Hnd; destruct Hnd as [Hna Hnd]; [auto|].
  apply Forall_forall. intros b Hb. rewrite Forall_forall in Hf. apply Hf in Hb as Hle.
  unfold tle in Hle. destruct (Z.eq_dec (fst a) (fst b)) as [Heq|]; [|lia].
  exfalso. apply Hna. rewrite Heq. apply in_map. exact Hb.
Qed.

Lemma spec_entries_strictly_sorted : forall l, NoDup (map fst l) ->
  Sorted.StronglySorted (fun a b => fst a < fst b) (TagSort.sort l).
Proof.
  intros l Hnd. apply sorted_strict; [apply tagsort_sorted|].
  eapply Permutation_NoDup; [|exact Hnd]. apply Permutation_map. apply TagSort.Permuted_sort.
Qed.

(* ------------------------------------------------------------------------------------------ *)
(* results: the only error the encoder reports on typed values is TypeError (an oversized
   tagged payload); needed because the writer and the specification evaluate the tagged fields
   in different orders *)
Definition etype_only {A} (r : res A) : Prop :=
  match r with Ok _ => True | Err e => e = EType end.

Lemma etype_rbind {A B} (r : res A) (f : A -> res B) :
  etype_only r -> (forall a, etype_only (f a)) -> etype_only (rbind r f).
Proof. destruct r as [a|e]; cbn [rbind etype_only]; auto. Qed.

Lemma etype_rconcat : forall l, Forall etype_only l -> etype_only (rconcat l).
Proof.
  induction l as [|x l IH]; intros H; cbn [rconcat]; [exact I|].
  apply Forall_cons_iff in H. destruct H as [Hx Hl].
  apply etype_rbind; [exact Hx|]. intros a. apply etype_rbind; [auto|]. intros b. exact I.
Qed.

Lemma etype_len_compact n : etype_only (write_len_compact n).
Proof. unfold write_len_compact. destruct (_ && _); cbn; auto. Qed.

Lemma rbind_ret {A} (r : res A) : rbind r (fun a => Ok a) = r.
Proof. destruct r; reflexivity. Qed.

Lemma rcat_rconcat : forall l, rcat l = rconcat l.
Proof. induction l as [|x l IH]; cbn [rcat rconcat]; [reflexivity|]. rewrite IH. reflexivity. Qed.

Lemma codec_eqb_eq' : forall a b, codec_eqb a b = true -> a = b.
Proof.
  induction a as [p|i n|c x IH]; intros [q|j m|d y] H; cbn [codec_eqb] in H; try discriminate H.
  - apply pcodec_eqb_eq in H. subst. reflexivity.
  - apply andb_true_iff in H. destruct H as [H1 H2].
    apply Nat.eqb_eq in H1. apply Bool.eqb_prop in H2. subst. reflexivity.
  - apply andb_true_iff in H. destruct H as [H1 H2].
    apply Bool.eqb_prop in H1. apply IH in H2. subst. reflexivity.
Qed.

Lemma erase_plain : forall v, erase (plain v) = v.
Proof.
  induction v using value_ind'; cbn [plain erase]; try reflexivity;
    f_equal; rewrite map_map; rewrite <- (map_id l) at 2; apply map_ext_in;
    rewrite Forall_forall in H; exact H.
Qed.

Lemma plain_leaf v : (forall l, v <> VArr l) -> (forall l, v <> VEnt l) -> plain v = DLeaf v.
Proof. intros H1 H2. destruct v; try reflexivity; [elim (H1 items)|elim (H2 fields)]; reflexivity. Qed.

Lemma wf_field_inv2 E i fl f : wf_field E i fl f = true ->
  arr_items_eq (f2_w f) (f2_r f) = true /\ (f2_tag f = None -> f2_w f = f2_r f).
Proof.
  unfold wf_field. intros H. apply andb_true_iff in H. destruct H as [H Ha].
  apply andb_true_iff in Ha. destruct Ha as [Ha _]. split; [exact Ha|].
  unfold wf_field0 in H. apply andb_true_iff in H. destruct H as [_ H].
  intros Ht. rewrite Ht in H. apply codec_eqb_eq'. exact H.
Qed.

(* the array length prefix *)
Lemma arr_prefix_spec (c : bool) (n : Z) : 0 <= n ->
  (if c then write_len_compact (n + 1)
   else if in_int_range 4 true n then write_int 4 true n else Err EOutOfBound) =
  (if c then spec_len_compact (n + 1)
   else if n <=? 2 ^ 31 - 1 then spec_int 4 true n else Err EOutOfBound).
Proof.
  intros Hn. destruct c; [apply write_len_compact_spec|].
  rewrite write_int_spec. unfold in_int_range, int_lo, int_hi.
  change (8 * Z.of_nat 4 - 1) with 31.
  replace (- 2 ^ 31 <=? n) with true by (symmetry; apply Z.leb_le; lia). reflexivity.
Qed.

Section CodecSpec.
  Variable E : list cplan2.
  Variable ec : list Z.
  Variable encc : nat -> value -> res (list Z).
  Variable specc : nat -> dvalue -> res (list Z).
  Variable tyc : nat -> value -> bool.
  Variable i : nat.
  Hypothesis Hcls : forall j v, (j < i)%nat -> tyc j v = true ->
    encc j v = specc j (plain v) /\ etype_only (encc j v).

  (* same codec on both sides *)
  Lemma codec_same : forall c v, refs_lt i c = true -> typed_codec ec tyc c v = true ->
    enc_codec encc c v = spec_codec specc c (plain v) /\ etype_only (enc_codec encc c v).
  Proof.
    induction c as [p|j n|c item IH]; intros v Hlt Ht;
      cbn [refs_lt typed_codec enc_codec spec_codec] in *.
    - split.
      + rewrite enc_prim_spec. destruct v; try reflexivity; destruct p; discriminate Ht.
      + destruct (prim_enc_total _ _ _ Ht) as [bs ->]. exact I.
    - apply Nat.ltb_lt in Hlt. destruct n.
      + destruct v; try (split; [reflexivity|exact I]);
          destruct (Hcls j _ Hlt Ht) as [He Hy]; cbn [plain] in *; rewrite <- He;
          (split; [reflexivity|apply etype_rbind; [exact Hy|intros; exact I]]).
      + destruct v; try discriminate Ht; apply (Hcls j _ Hlt Ht).
    - destruct v; try discriminate Ht; cbn [plain].
      + rewrite write_int_spec. split; [reflexivity|]. destruct c; exact I.
      + apply andb_true_iff in Ht. destruct Ht as [Hall Hsz]. rewrite forallb_forall in Hall.
        assert (Hz: zlen (map plain items) = zlen items) by (unfold zlen; rewrite map_length; reflexivity).
        rewrite Hz, <- arr_prefix_spec by (unfold zlen; lia).
        assert (Hitems: rconcat (map (enc_codec encc item) items)
                        = rcat (map (spec_codec specc item) (map plain items))
                        /\ Forall etype_only (map (enc_codec encc item) items)).
        { clear Hsz Hz. induction items as [|x xs IHx]; [split; [reflexivity|constructor]|].
          destruct IHx as [IH1 IH2]; [intros y Hy; apply Hall; right; exact Hy|].
          destruct (IH x Hlt (Hall x (or_introl eq_refl))) as [Hx1 Hx2].
          cbn [map rconcat rcat]. rewrite Hx1, IH1. split; [reflexivity|].
          constructor; [rewrite <- Hx1; exact Hx2|exact IH2]. }
        destruct Hitems as [Hi1 Hi2]. rewrite <- Hi1. split; [reflexivity|].
        apply etype_rbind.
        * destruct c; [apply etype_len_compact|]. apply Z.leb_le in Hsz.
          assert (Hr: in_int_range 4 true (zlen items) = true)
            by (apply range_s4; unfold zlen in *; lia).
          rewrite Hr, (write_int_ok _ _ _ Hr). exact I.
        * intros p. apply etype_rbind; [apply etype_rconcat; exact Hi2|intros; exact I].
  Qed.

  (* writer codec vs reader codec of a field *)
  Lemma codec_sub_spec : forall w r v, codec_sub w r = true -> arr_items_eq w r = true ->
    typed_codec ec tyc w v = true -> spec_codec specc r (plain v) = spec_codec specc w (plain v).
  Proof.
    intros w r v Hs Ha Ht. destruct w as [p|j n|c x]; destruct r as [q|k m|d y];
      cbn [codec_sub arr_items_eq] in Hs, Ha; try discriminate Hs.
    - cbn [typed_codec] in Ht. destruct (psub_lift ec p q v Hs Ht) as [_ He].
      cbn [spec_codec]. rewrite !enc_prim_spec in He.
      destruct v; cbn [plain]; try exact He; destruct p; discriminate Ht.
    - apply andb_true_iff in Hs. destruct Hs as [H1 H2].
      apply Nat.eqb_eq in H1. apply Bool.eqb_prop in H2. subst. reflexivity.
    - apply andb_true_iff in Hs. destruct Hs as [H1 _].
      apply Bool.eqb_prop in H1. apply codec_eqb_eq' in Ha. subst. reflexivity.
  Qed.

  Lemma field_spec fl f v : wf_field E i fl f = true -> typed_codec ec tyc (f2_w f) v = true ->
    enc_codec encc (f2_w f) v = spec_codec specc (f2_r f) (plain v)
    /\ etype_only (enc_codec encc (f2_w f) v).
  Proof.
    intros Hwf Ht. pose proof (wf_field_inv _ _ _ _ Hwf) as [Hs [Hlt _]].
    pose proof (wf_field_inv2 _ _ _ _ Hwf) as [Ha _].
    rewrite (codec_sub_spec _ _ _ Hs Ha Ht). apply codec_same; assumption.
  Qed.

  (* untagged fields *)
  Lemma regular_spec fl : forall fs vs,
    forallb (wf_field E i fl) fs = true -> typed_fields ec tyc fs vs = true ->
    enc_regular encc (map wr fs) vs = spec_regular specc fs (map plain vs)
    /\ etype_only (enc_regular encc (map wr fs) vs).
  Proof.
    induction fs as [|f fs IH]; intros vs Hwf Ht; destruct vs as [|v vs];
      cbn [typed_fields] in Ht; try discriminate Ht; [split; [reflexivity|exact I]|].
    cbn [map enc_regular spec_regular]. cbn [wr fp_tag fp_codec].
    cbn [forallb] in Hwf. apply andb_true_iff in Hwf. destruct Hwf as [Hwf1 Hwf].
    apply andb_true_iff in Ht. destruct Ht as [Ht1 Ht].
    destruct (IH vs Hwf Ht) as [IH1 IH2].
    destruct (f2_tag f) as [t|]; [split; assumption|].
    destruct (field_spec _ _ _ Hwf1 Ht1) as [H1 H2]. rewrite <- H1, <- IH1.
    split; [reflexivity|]. apply etype_rbind; [exact H2|]. intros a.
    apply etype_rbind; [exact IH2|intros; exact I].
  Qed.

  (* tagged fields: the payload of an entry *)
  Definition pay (e : Z * (codec * value)) : list Z :=
    match enc_codec encc (fst (snd e)) (snd (snd e)) with Ok p => p | Err _ => [] end.
  Definition pay_ok (e : Z * (codec * value)) : bool :=
    is_ok (enc_codec encc (fst (snd e)) (snd (snd e))).
  Definition hpay (e : Z * (codec * value)) : Z * list Z := (fst e, pay e).

  Lemma known_spec fl : forall fs vs,
    forallb (wf_field E i fl) fs = true -> typed_fields ec tyc fs vs = true ->
    spec_known specc fs (map plain vs) (map (fun _ => false) vs) =
    (if forallb pay_ok (tagged_present (map wr fs) vs)
     then Ok (map hpay (tagged_present (map wr fs) vs)) else Err EType).
  Proof.
    induction fs as [|f fs IH]; intros vs Hwf Ht; destruct vs as [|v vs];
      cbn [typed_fields] in Ht; try discriminate Ht; [reflexivity|].
    cbn [map spec_known tagged_present]. cbn [wr fp_tag fp_codec fp_default].
    cbn [forallb] in Hwf. apply andb_true_iff in Hwf. destruct Hwf as [Hwf1 Hwf].
    apply andb_true_iff in Ht. destruct Ht as [Ht1 Ht].
    rewrite (IH vs Hwf Ht), erase_plain. clear IH.
    set (TP := tagged_present (map wr fs) vs).
    destruct (f2_tag f) as [t|]; [|apply rbind_ret].
    destruct (val_eqb v (f2_default f)); cbn [orb negb]; [apply rbind_ret|].
    cbn [orb] in Ht1. destruct (field_spec _ _ _ Hwf1 Ht1) as [H1 H2]. rewrite <- H1.
    cbn [forallb map].
    assert (Hpo: pay_ok (t, (f2_w f, v)) = is_ok (enc_codec encc (f2_w f) v)) by reflexivity.
    assert (Hhp: hpay (t, (f2_w f, v))
                 = (t, match enc_codec encc (f2_w f) v with Ok p => p | Err _ => [] end))
      by reflexivity.
    rewrite Hpo, Hhp. clear Hpo Hhp.
    destruct (enc_codec encc (f2_w f) v) as [p|e]; cbn [is_ok andb].
    - destruct (forallb pay_ok TP); reflexivity.
    - cbn [etype_only] in H2. subst e. destruct (forallb pay_ok TP); reflexivity.
  Qed.

  Lemma entry_spec fs e : good_entry ec tyc fs e -> forallb (wf_field E i true) fs = true ->
    (pay_ok e = true -> enc_tag_entry encc e = spec_entry (hpay e))
    /\ etype_only (enc_tag_entry encc e).
  Proof.
    intros [f [Hf [Htag [Hw Hty]]]] Hwf. rewrite forallb_forall in Hwf. apply Hwf in Hf.
    destruct (field_spec _ _ _ Hf Hty) as [_ Hy]. rewrite Hw in Hy.
    apply wf_field_inv in Hf. destruct Hf as [_ [_ [_ [_ Hr]]]]. destruct (Hr _ Htag) as [_ Hrange].
    split.
    - unfold pay_ok, enc_tag_entry, spec_entry, hpay, pay. cbn [fst snd].
      destruct (enc_codec encc (fst (snd e)) (snd (snd e))) as [p|err]; [intros _|discriminate].
      cbn [rbind]. rewrite write_len_compact_spec.
      assert (2 ^ 31 < 2 ^ 35) by (apply Z.pow_lt_mono_r; lia).
      assert (Htg: spec_len_compact (fst e) = Ok (spec_uvarint (fst e))).
      { unfold spec_len_compact.
        replace ((0 <=? fst e) && (fst e <=? 2 ^ 35 - 1)) with true
          by (symmetry; apply andb_true_iff; split; apply Z.leb_le; lia).
        reflexivity. }
      rewrite Htg. cbn [rbind]. rewrite uvarint_bytes_spec by lia. reflexivity.
    - unfold enc_tag_entry. apply etype_rbind; [exact Hy|]. intros p.
      apply etype_rbind; [apply etype_len_compact|intros; exact I].
  Qed.

  Theorem entity_spec c v : wf_class E i c = true -> typed_entity ec tyc c v = true ->
    enc_entity encc (writer_plan c) v = spec_entity specc c (plain v)
    /\ etype_only (enc_entity encc (writer_plan c) v).
  Proof.
    intros Hwf Ht. unfold wf_class in Hwf. apply andb_true_iff in Hwf. destruct Hwf as [Hwf Hnd].
    rewrite enc_entity_unfold.
    destruct v as [| | | | | | | | | |vs]; try discriminate Ht. cbn [typed_entity] in Ht.
    cbn [plain spec_entity].
    destruct (c2_flexible c) eqn:Efl; cbn [negb andb].
    - destruct (regular_spec true _ _ Hwf Ht) as [Hr1 Hr2]. rewrite <- Hr1.
      destruct (enc_regular encc (map wr (c2_fields c)) vs) as [r|e]; cbn [rbind];
        [|split; [reflexivity|exact Hr2]]. cbv zeta.
      rewrite (known_spec true _ _ Hwf Ht).
      set (TP := tagged_present (map wr (c2_fields c)) vs).
      assert (Hperm: Permutation (sort_by_tag TP) TP) by apply sort_by_tag_perm.
      assert (Hgood: forall e, In e (sort_by_tag TP) -> good_entry ec tyc (c2_fields c) e).
      { intros e He. eapply tp_good; [exact Ht|]. eapply Permutation_in; [exact Hperm|exact He]. }
      assert (Hety: etype_only (rconcat (map (enc_tag_entry encc) (sort_by_tag TP)))).
      { apply etype_rconcat. apply Forall_forall. intros x Hx. apply in_map_iff in Hx.
        destruct Hx as [e [<- He]]. apply (entry_spec _ _ (Hgood e He) Hwf). }
      assert (Hall: etype_only
        (rbind (rconcat (map (enc_tag_entry encc) (sort_by_tag TP)))
           (fun t => rbind (write_len_compact (zlen (sort_by_tag TP)))
              (fun n => Ok (r ++ n ++ t))))).
      { apply etype_rbind; [exact Hety|]. intros t.
        apply etype_rbind; [apply etype_len_compact|intros; exact I]. }
      split; [|exact Hall].
      destruct (forallb pay_ok TP) eqn:Eok; cbn [rbind].
      + rewrite app_nil_r, <- (sort_map_commute hpay) by (reflexivity || apply tp_nodup; exact Hnd).
        change rcat with rconcat. rewrite map_map.
        replace (zlen (map hpay (sort_by_tag TP))) with (zlen (sort_by_tag TP))
          by (unfold zlen; rewrite map_length; reflexivity).
        rewrite <- write_len_compact_spec.
        rewrite (map_ext_in (fun x => spec_entry (hpay x)) (enc_tag_entry encc)); [reflexivity|].
        intros e He. symmetry. apply (entry_spec _ _ (Hgood e He) Hwf).
        rewrite forallb_forall in Eok. apply Eok. eapply Permutation_in; [exact Hperm|exact He].
      + destruct (rconcat (map (enc_tag_entry encc) (sort_by_tag TP))) as [t|e] eqn:Ec;
          [exfalso|cbn [rbind etype_only] in *; congruence].
        assert (forallb pay_ok TP = true); [|congruence].
        apply forallb_forall. intros e He.
        apply (Permutation_in _ (Permutation_sym Hperm)) in He.
        destruct (rconcat_ok_all _ _ _ Ec e He) as [b Hb]. unfold enc_tag_entry in Hb.
        unfold pay_ok. destruct (enc_codec encc (fst (snd e)) (snd (snd e))); [reflexivity|discriminate Hb].
    - rewrite (wf_no_tags _ _ _ Hwf).
      destruct (regular_spec false _ _ Hwf Ht) as [Hr1 Hr2]. rewrite <- Hr1.
      destruct (enc_regular encc (map wr (c2_fields c)) vs) as [r|e]; cbn [rbind];
        split; try reflexivity; exact Hr2.
  Qed.
End CodecSpec.

Theorem class_spec E ec : wf_env E = true -> forall r i, (i < r)%nat -> forall v,
  typed_class E ec r i v = true ->
  enc_class (map writer_plan E) r i v = spec_class E r i (plain v)
  /\ etype_only (enc_class (map writer_plan E) r i v).
Proof.
  intros Hwf. induction r as [|r IH]; intros i Hi v Ht; [lia|].
  cbn [typed_class enc_class spec_class] in *. rewrite nth_error_map.
  destruct (nth_error E i) as [c|] eqn:Ei; [|discriminate]. cbn [option_map].
  apply (entity_spec E ec (enc_class (map writer_plan E) r) (spec_class E r)
           (typed_class E ec r) i).
  - intros j v' Hj. apply IH. lia.
  - eapply wf_env_nth; eauto.
  - exact Ht.
Qed.

(* C02 *)
Theorem encode_is_spec : forall (E : list cplan2) (ec : list Z), wf_env E = true ->
  forall i v, typed E ec i v = true ->
  encode (map writer_plan E) i v = spec_enc E i (plain v).
Proof.
  intros E ec Hwf i v Ht. unfold encode, spec_enc, typed in *.
  apply (class_spec E ec Hwf (S i) i (Nat.lt_succ_diag_r i) v Ht).
Qed.
Print Assumptions encode_is_spec.

(* on typed values the only error is TypeError (an oversized tagged payload or tagged count) *)
Corollary encode_error_is_type_error : forall E ec, wf_env E = true -> forall i v e,
  typed E ec i v = true -> encode (map writer_plan E) i v = Err e -> e = EType.
Proof.
  intros E ec Hwf i v e Ht H. unfold encode, typed in *.
  destruct (class_spec E ec Hwf (S i) i (Nat.lt_succ_diag_r i) v Ht) as [_ Hy].
  rewrite H in Hy. exact Hy.
Qed.

(* ------------------------------------------------------------------------------------------ *)
(* clause lemmas on the specification *)

(* minimal-length varints *)
Lemma spec_uvarint_length : forall n, 0 <= n ->
  Z.of_nat (length (spec_uvarint n)) = Z.log2 n / 7 + 1.
Proof.
  intros n _. unfold spec_uvarint. rewrite map_length, seq_length. unfold spec_groups.
  pose proof (Z.log2_nonneg n). assert (0 <= Z.log2 n / 7) by (apply Z.div_pos; lia).
  rewrite Z2Nat.id by lia. reflexivity.
Qed.

(* at most 5 bytes below 2^35 *)
Corollary spec_uvarint_max5 : forall n, 0 <= n < 2 ^ 35 -> (length (spec_uvarint n) <= 5)%nat.
Proof.
  intros n Hn. pose proof (spec_uvarint_length n ltac:(lia)) as Hl.
  destruct (Z.eqb_spec n 0) as [->|Hnz]; [change (Z.log2 0 / 7 + 1) with 1 in Hl; lia|].
  assert (Z.log2 n < 35) by (apply Z.log2_lt_pow2; lia).
  assert (Z.log2 n / 7 < 5) by (apply Z.div_lt_upper_bound; lia). lia.
Qed.

Lemma spec_digits_1 v : spec_digits 1 v = [v mod 128].
Proof.
  unfold spec_digits. cbn [seq map Nat.eqb Z.of_nat]. rewrite Z.pow_0_r, Z.div_1_r. reflexivity.
Qed.

Lemma spec_digits_SS f v :
  spec_digits (S (S f)) v = (v mod 128 + 128) :: spec_digits (S f) (v / 128).
Proof.
  unfold spec_digits. change (seq 0 (S (S f))) with (0%nat :: seq 1 (S f)).
  rewrite <- seq_shift, map_cons, map_map. f_equal.
  - cbn [Z.of_nat Nat.eqb]. rewrite Z.pow_0_r, Z.div_1_r. reflexivity.
  - apply map_ext. intros k. cbv zeta.
    rewrite (Nat2Z.inj_succ k), Z.pow_succ_r by lia.
    rewrite Z.div_div; [|lia|apply Z.pow_pos_nonneg; lia].
    change (Nat.eqb (S (S k)) (S (S f))) with (Nat.eqb (S k) (S f)). reflexivity.
Qed.

Definition groups_value (l : list Z) : Z := fold_right (fun b acc => (b mod 128) + 128 * acc) 0 l.

Lemma spec_digits_value : forall f v, 0 <= v < 2 ^ (7 * Z.of_nat f + 7) ->
  groups_value (spec_digits (S f) v) = v.
Proof.
  unfold groups_value. induction f as [|f IH]; intros v Hv.
  - rewrite spec_digits_1. cbn [fold_right]. change (2 ^ (7 * Z.of_nat 0 + 7)) with 128 in Hv.
    rewrite Z.mod_mod by lia. rewrite Z.mod_small by lia. lia.
  - rewrite spec_digits_SS. cbn [fold_right].
    assert (E2: 2 ^ (7 * Z.of_nat (S f) + 7) = 128 * 2 ^ (7 * Z.of_nat f + 7)).
    { replace (7 * Z.of_nat (S f) + 7) with (7 + (7 * Z.of_nat f + 7)) by lia.
      rewrite Z.pow_add_r by lia. reflexivity. }
    rewrite E2 in Hv. rewrite IH.
    + replace (v mod 128 + 128) with (v mod 128 + 1 * 128) by lia.
      rewrite Z.mod_add, Z.mod_mod by lia. pose proof (Z.div_mod v 128 ltac:(lia)). lia.
    + split; [apply Z.div_pos; lia|apply Z.div_lt_upper_bound; lia].
Qed.

(* the value of the groups: sum of (b mod 128) * 128^i is n *)
Lemma spec_uvarint_value : forall n, 0 <= n ->
  fold_right (fun b acc => (b mod 128) + 128 * acc) 0 (spec_uvarint n) = n.
Proof.
  intros n Hn. unfold spec_uvarint. rewrite spec_groups_S.
  apply (spec_digits_value (Z.to_nat (Z.log2 n / 7)) n).
  split; [exact Hn|apply fuel_bound; exact Hn].
Qed.

(* continuation bit (bit 7) set on all but the last byte *)
Lemma spec_digits_continuation : forall f v, exists init last,
  spec_digits (S f) v = init ++ [last] /\ 0 <= last < 128 /\
  Forall (fun b => 128 <= b < 256) init.
Proof.
  induction f as [|f IH]; intros v.
  - exists [], (v mod 128). rewrite spec_digits_1. repeat split; try constructor;
      apply Z.mod_pos_bound; lia.
  - destruct (IH (v / 128)) as [init [last [He [Hl Hi]]]].
    exists ((v mod 128 + 128) :: init), last. rewrite spec_digits_SS, He.
    repeat split; try apply Hl. constructor; [|exact Hi].
    pose proof (Z.mod_pos_bound v 128 ltac:(lia)). lia.
Qed.

Lemma spec_uvarint_continuation : forall n, exists init last,
  spec_uvarint n = init ++ [last] /\ 0 <= last < 128 /\ Forall (fun b => 128 <= b < 256) init.
Proof.
  intros n. unfold spec_uvarint. rewrite spec_groups_S. apply spec_digits_continuation.
Qed.

(* big-endian value *)
Lemma spec_be_value : forall w u, 0 <= u < 256 ^ Z.of_nat w -> be_val (spec_be w u) = u.
Proof. intros w u Hu. rewrite <- be_bytes_spec_gen. apply be_val_be_bytes. exact Hu. Qed.

Lemma spec_be_length : forall w u, length (spec_be w u) = w.
Proof. intros w u. unfold spec_be. rewrite map_length, seq_length. reflexivity. Qed.

Print Assumptions spec_uvarint_value.
Print Assumptions spec_entries_sorted.
