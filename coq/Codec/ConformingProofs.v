(* C03: kio's decoder accepts every encoding a conforming peer may send (Codec/WireSpec.v),
   including forward-compatible ones: tagged fields sent although they hold their default,
   explicit nulls for nullable tagged fields, and unknown tagged fields, at every nesting level.
   The decoded value is the plain value underneath the decorations, with exact consumption. *)
From Coq Require Import ZArith List Bool Lia Permutation.
From KioV Require Import Base.Res Base.Prog Base.ProgProofs
  Prim.Bytes Prim.Varint Prim.Time Prim.BytesProofs Prim.VarintProofs
  Codec.Value Codec.PrimCodec Codec.PrimCodecProofs Codec.Reader Codec.Writer
  Schema.Introspect Codec.Typed Codec.RoundtripProofs Codec.WireSpec.
From KioV Require Codec.DecodeProofs.
Import ListNotations.
Open Scope Z_scope.

(* ------------------------------------------------------------------------------------------ *)
(* the closed-form primitives of the wire specification are the primitives of kio's writers *)

Lemma spec_be_eq : forall w u, spec_be w u = be_bytes w u.
Proof.
  unfold spec_be. induction w as [|w IH]; intros u; [reflexivity|].
  rewrite seq_S, map_app. cbn [be_bytes map Nat.add]. f_equal.
  - rewrite <- IH. apply map_ext_in. intros k Hk. apply in_seq in Hk.
    replace (S w - 1 - k)%nat with (S (w - 1 - k))%nat by lia.
    rewrite Nat2Z.inj_succ, Z.pow_succ_r by lia.
    rewrite Z.div_div by (try apply Z.pow_pos_nonneg; lia). reflexivity.
  - replace (S w - 1 - w)%nat with 0%nat by lia. cbn [Z.of_nat Z.pow]. rewrite Z.div_1_r. reflexivity.
Qed.

Lemma spec_int_eq w s z : spec_int w s z = write_int w s z.
Proof.
  unfold spec_int, write_int, in_int_range, int_lo, int_hi. cbv zeta. rewrite spec_be_eq.
  destruct s; reflexivity.
Qed.

Definition uv_from (k : nat) (n : Z) : list Z :=
  map (fun i => let g := (n / 128 ^ Z.of_nat i) mod 128 in
                if Nat.eqb (S i) k then g else g + 128) (seq 0 k).

Lemma lor128_add c : 0 <= c < 128 -> Z.lor 128 c = c + 128.
Proof.
  intros H. assert (Hl: Z.land 128 c = 0) by (rewrite Z.land_comm; apply small_land128; exact H).
  rewrite <- Z.lxor_lor by exact Hl. rewrite <- (Z.add_nocarry_lxor _ _ Hl). lia.
Qed.

Lemma wv_uv_from : forall f v, 0 <= v -> v < 128 ^ Z.of_nat (S f) ->
  (f <> 0%nat -> 128 ^ Z.of_nat f <= v) -> wv f v = uv_from (S f) v.
Proof.
  induction f as [|f IH]; intros v H0 Hhi Hlo.
  - unfold uv_from. cbn [wv seq map Nat.eqb Z.of_nat Z.pow]. rewrite Z.div_1_r, land127. reflexivity.
  - cbn [wv]. rewrite Z.shiftr_div_pow2 by lia. change (2 ^ 7) with 128.
    assert (Hp: 0 < 128 ^ Z.of_nat f) by (apply Z.pow_pos_nonneg; lia).
    assert (Hlo': 128 ^ Z.of_nat (S f) <= v) by (apply Hlo; discriminate).
    assert (Hs1: 128 ^ Z.of_nat (S f) = 128 * 128 ^ Z.of_nat f)
      by (rewrite Nat2Z.inj_succ, Z.pow_succ_r by lia; reflexivity).
    assert (Hs2: 128 ^ Z.of_nat (S (S f)) = 128 * 128 ^ Z.of_nat (S f))
      by (rewrite (Nat2Z.inj_succ (S f)), Z.pow_succ_r by lia; reflexivity).
    rewrite Hs2 in Hhi. rewrite Hs1 in Hhi, Hlo'.
    assert (Hq: 128 ^ Z.of_nat f <= v / 128) by (apply Z.div_le_lower_bound; lia).
    destruct (Z.eqb_spec (v / 128) 0) as [Hz|_]; [lia|].
    unfold uv_from. change (seq 0 (S (S f))) with (0%nat :: seq 1 (S f)).
    rewrite <- seq_shift. rewrite map_cons, map_map. f_equal.
    + cbn [Z.of_nat Z.pow]. rewrite Z.div_1_r, land127.
      rewrite lor128_add by (apply Z.mod_pos_bound; lia). reflexivity.
    + rewrite IH.
      * unfold uv_from. apply map_ext. intros k. cbv zeta.
        rewrite Nat2Z.inj_succ, Z.pow_succ_r by lia.
        rewrite Z.div_div by lia. reflexivity.
      * apply Z.div_pos; lia.
      * rewrite Hs1. apply Z.div_lt_upper_bound; lia.
      * intros _. exact Hq.
Qed.

Lemma spec_uvarint_eq n : 0 <= n -> spec_uvarint n = uvarint_bytes n.
Proof.
  intros H. unfold spec_uvarint, uvarint_bytes, spec_groups. cbv zeta.
  set (f := Z.to_nat (Z.log2 n / 7)).
  assert (Hl: 0 <= Z.log2 n / 7) by (apply Z.div_pos; [apply Z.log2_nonneg|lia]).
  replace (Z.to_nat (Z.log2 n / 7 + 1)) with (S f) by (unfold f; lia).
  symmetry. apply wv_uv_from; [exact H| |].
  - pose proof (fuel_bound n H) as Hb. fold f in Hb.
    replace (128 ^ Z.of_nat (S f)) with (2 ^ (7 * Z.of_nat f + 7)); [exact Hb|].
    rewrite Nat2Z.inj_succ. change 128 with (2 ^ 7). rewrite <- Z.pow_mul_r by lia. f_equal. lia.
  - intros Hf. assert (Hn: 0 < n).
    { destruct (Z.eq_dec n 0) as [->|]; [|lia]. exfalso. apply Hf. reflexivity. }
    change 128 with (2 ^ 7). rewrite <- Z.pow_mul_r by lia.
    apply Z.le_trans with (2 ^ Z.log2 n); [|apply Z.log2_spec; exact Hn].
    apply Z.pow_le_mono_r; [lia|]. unfold f. rewrite Z2Nat.id by exact Hl.
    pose proof (Z.mul_div_le (Z.log2 n) 7). lia.
Qed.

Lemma spec_len_compact_eq n : spec_len_compact n = write_len_compact n.
Proof.
  unfold spec_len_compact, write_len_compact, uvarint_hi.
  destruct (0 <=? n) eqn:E; cbn [andb]; [|reflexivity].
  destruct (n <=? 2 ^ 35 - 1); [|reflexivity].
  apply Z.leb_le in E. rewrite spec_uvarint_eq by exact E. reflexivity.
Qed.

Lemma spec_millis_eq us : spec_millis us = round_half_even_1000 us.
Proof.
  unfold spec_millis, round_half_even_1000. cbv zeta.
  replace (us - us / 1000 * 1000) with (us mod 1000) by (rewrite Z.mod_eq by lia; lia).
  destruct (Z.ltb_spec (us mod 1000) 500) as [H1|H1].
  - destruct (Z.ltb_spec 500 (us mod 1000)) as [H2|H2]; [lia|].
    destruct (Z.eqb_spec (us mod 1000) 500) as [H3|H3]; [lia|]. reflexivity.
  - destruct (Z.ltb_spec 500 (us mod 1000)) as [H2|H2]; [reflexivity|].
    destruct (Z.eqb_spec (us mod 1000) 500) as [H3|H3]; [|lia].
    cbn [orb andb]. rewrite <- Z.negb_even. destruct (Z.even (us / 1000)); reflexivity.
Qed.

Lemma spec_blob_some_eq c n w b : (0 < w)%nat ->
  spec_blob c n w (Some b) = if c then write_compact_blob b else write_legacy_blob w b.
Proof.
  intros Hw. unfold spec_blob, write_compact_blob, write_legacy_blob. destruct c.
  - rewrite spec_len_compact_eq. reflexivity.
  - rewrite spec_int_eq. unfold in_int_range, int_lo, int_hi.
    replace (- 2 ^ (8 * Z.of_nat w - 1) <=? zlen b) with true; [reflexivity|].
    symmetry. apply Z.leb_le.
    assert (0 < 2 ^ (8 * Z.of_nat w - 1)) by (apply Z.pow_pos_nonneg; lia).
    unfold zlen. lia.
Qed.

Lemma spec_blob_none_eq c n w :
  spec_blob c n w None = if n then (if c then Ok [0] else write_int w true (-1)) else Err EType.
Proof. unfold spec_blob. rewrite spec_int_eq. reflexivity. Qed.

Theorem spec_prim_eq p v : spec_prim p v = enc_prim p v.
Proof.
  destruct p as [w s| | | |c n|c n| | | |n]; destruct v; cbn [spec_prim enc_prim];
    try reflexivity; try apply spec_int_eq;
    rewrite ?spec_blob_none_eq, ?spec_blob_some_eq by lia;
    cbn [write_string_like blob_of write_timedelta write_datetime];
    rewrite ?spec_millis_eq, ?spec_int_eq; reflexivity.
Qed.

(* ------------------------------------------------------------------------------------------ *)
(* helpers *)
Lemma rcat_rconcat l : rcat l = rconcat l.
Proof. induction l as [|x l IH]; cbn [rcat rconcat]; [reflexivity|]. rewrite IH. reflexivity. Qed.

Lemma spec_len_compact_nonempty n p : spec_len_compact n = Ok p -> (1 <= length p)%nat.
Proof. rewrite spec_len_compact_eq. apply write_len_compact_nonempty. Qed.

Lemma spec_read_uvarint n p tl : spec_len_compact n = Ok p -> run read_uvarint (p ++ tl) = Ok (n, tl).
Proof. rewrite spec_len_compact_eq. apply read_uvarint_len. Qed.

Lemma psub_refl p : psub p p = true.
Proof. exact (codec_sub_refl (CPrim p)). Qed.

Lemma keep_some_in {A} (x : A) : forall l, In x (keep_some l) <-> In (Some x) l.
Proof.
  induction l as [|[y|] l IH]; cbn [keep_some In].
  - tauto.
  - rewrite IH. split; intros [H|H]; auto; left; congruence.
  - rewrite IH. split; [auto|]. intros [H|H]; [discriminate|assumption].
Qed.

Lemma assoc_last_of_in t : forall D, In t (map fst D) -> exists v, assoc_last t D = Some v.
Proof.
  induction D as [|[t' v'] D IH]; cbn [map fst assoc_last In]; intros H; [destruct H|].
  destruct H as [->|H].
  - destruct (assoc_last t D); [eauto|]. rewrite Z.eqb_refl. eauto.
  - destruct (IH H) as [v ->]. eauto.
Qed.

(* the array length prefix and the null array *)
Lemma sarr_prefix (c : bool) n p tl :
  (if c then spec_len_compact (n + 1)
   else if n <=? 2 ^ 31 - 1 then spec_int 4 true n else Err EOutOfBound) = Ok p ->
  run (if c then read_compact_len else read_int 4 true) (p ++ tl) = Ok (n, tl) /\
  (1 <= length p)%nat.
Proof.
  destruct c; intros H.
  - rewrite spec_len_compact_eq in H. split.
    + apply read_compact_len_rt. exact H.
    + eapply write_len_compact_nonempty; eauto.
  - destruct (n <=? 2 ^ 31 - 1); [|discriminate]. rewrite spec_int_eq in H. split.
    + apply read_write_int_any. exact H.
    + apply write_int_length in H. lia.
Qed.

Lemma sarr_null (c : bool) p tl :
  (if c then Ok [0] else spec_int 4 true (-1)) = Ok p ->
  run (if c then read_compact_len else read_int 4 true) (p ++ tl) = Ok (-1, tl) /\
  (1 <= length p)%nat.
Proof.
  destruct c; intros H.
  - ok_inj H. split; [apply read_compact_len_null|cbn; lia].
  - rewrite spec_int_eq in H. split.
    + apply read_write_int_any. exact H.
    + apply write_int_length in H. lia.
Qed.

(* what the reader side of a well-formed field provides *)
Lemma wf_field_inv_r E i fl f : wf_field E i fl f = true ->
  refs_lt i (f2_r f) = true /\ items_nonempty E (f2_r f) = true /\ codec_ok (f2_r f) = true /\
  (forall t, f2_tag f = Some t -> fl = true /\ 0 <= t < 2 ^ 31) /\
  (f2_tag f = None -> f2_w f = f2_r f).
Proof.
  intros H. pose proof (wf_field_inv E i fl f H) as [Hs [Hlt [Hin [_ Ht]]]].
  unfold wf_field in H. apply andb_true_iff in H. destruct H as [H _]. unfold wf_field0 in H.
  apply andb_true_iff in H. destruct H as [H Htag].
  apply andb_true_iff in H. destruct H as [_ Hokr].
  split; [|split; [|split; [|split]]].
  - eapply DecodeProofs.refs_lt_sub; eauto.
  - eapply DecodeProofs.items_nonempty_sub; eauto.
  - exact Hokr.
  - exact Ht.
  - intros Hn. rewrite Hn in Htag. apply DecodeProofs.codec_eqb_eq. exact Htag.
Qed.

(* the value carried by the field with a given tag *)
Fixpoint tag_val (fs : list fplan2) (ds : list dvalue) (t : Z) : option value :=
  match fs, ds with
  | f :: ftl, d :: dtl =>
      match f2_tag f with
      | Some t' => if t =? t' then Some (erase d) else tag_val ftl dtl t
      | None => tag_val ftl dtl t
      end
  | _, _ => None
  end.

(* what dec_one_tag returns for an entry of the tagged section *)
Definition entry_res (fs : list fplan2) (ds : list dvalue) (e : Z * list Z) : option (Z * value) :=
  match tag_val fs ds (fst e) with Some v => Some (fst e, v) | None => None end.

Lemma tag_val_none : forall fs ds t, ~ In t (tags_of fs) -> tag_val fs ds t = None.
Proof.
  induction fs as [|f fs IH]; intros ds t H; destruct ds as [|d ds]; cbn [tag_val]; try reflexivity.
  rewrite tags_of_cons in H. destruct (f2_tag f) as [t'|].
  - destruct (Z.eqb_spec t t') as [->|]; [exfalso; apply H; left; reflexivity|].
    apply IH. intros Hin. apply H. right. exact Hin.
  - apply IH. exact H.
Qed.

Lemma tag_val_some : forall fs ds t, length fs = length ds -> In t (tags_of fs) ->
  exists v, tag_val fs ds t = Some v.
Proof.
  induction fs as [|f fs IH]; intros ds t Hl H; [destruct H|].
  destruct ds as [|d ds]; [discriminate|]. injection Hl as Hl. cbn [tag_val].
  rewrite tags_of_cons in H. destruct (f2_tag f) as [t'|]; [|apply IH; assumption].
  destruct (Z.eqb_spec t t') as [->|Hne]; [eauto|].
  destruct H as [H|H]; [congruence|]. apply IH; assumption.
Qed.

Lemma find_tag_none : forall fs t, ~ In t (tags_of fs) -> find_tag t (map rd fs) = None.
Proof.
  induction fs as [|f fs IH]; intros t H; [reflexivity|].
  unfold find_tag. cbn [map find]. cbn [rd fp_tag]. rewrite tags_of_cons in H.
  destruct (f2_tag f) as [t'|].
  - destruct (Z.eqb_spec t t') as [->|]; [exfalso; apply H; left; reflexivity|].
    apply IH. intros Hin. apply H. right. exact Hin.
  - apply IH. exact H.
Qed.

(* what `fill` needs from the decoded tag list: the value, or nothing if it is the default *)
Definition Pfield' (D : list (Z * value)) (f : fplan2) (v : value) : Prop :=
  forall t, f2_tag f = Some t ->
  assoc_last t D = Some v \/ (assoc_last t D = None /\ val_eqb v (f2_default f) = true).

Lemma fill_ok' D : forall fs vs, Forall2 (Pfield' D) fs vs ->
  fill (map rd fs) (regular_vals fs vs) D = vs.
Proof.
  intros fs vs H. induction H as [|f v fs vs Hf Hfs IH]; [reflexivity|].
  cbn [map fill regular_vals]. cbn [rd fp_tag fp_default].
  destruct (f2_tag f) as [t|] eqn:Et.
  - rewrite IH. destruct (Hf t Et) as [->|[-> Hv]]; [reflexivity|].
    f_equal. symmetry. apply val_eqb_eq. exact Hv.
  - rewrite IH. reflexivity.
Qed.

Section SpecLevel.
  Variable E : list cplan2.
  Variable ec : list Z.
  Variable fuel : nat.
  Variable sencc : nat -> dvalue -> res (list Z).
  Variable decc : nat -> prog value.
  Variable cfc : nat -> dvalue -> bool.
  Variable i : nat.

  Hypothesis Hcls : forall j d b tl, (j < i)%nat -> cfc j d = true -> sencc j d = Ok b ->
    (length (b ++ tl) < fuel)%nat -> run (decc j) (b ++ tl) = Ok (erase d, tl).
  Hypothesis Hne : forall j cj d b, nth_error E j = Some cj -> class_nonempty cj = true ->
    cfc j d = true -> sencc j d = Ok b -> (1 <= length b)%nat.

  Lemma scodec_nonempty_top r d bs :
    top_nonempty r = true -> codec_ok r = true -> conf_codec ec cfc r d = true ->
    spec_codec sencc r d = Ok bs -> (1 <= length bs)%nat.
  Proof.
    destruct r as [p|j n|c r]; cbn [top_nonempty codec_ok conf_codec spec_codec];
      intros Hn Hok Ht H.
    - destruct d as [v| |]; try discriminate. rewrite spec_prim_eq in H.
      eapply prim_enc_nonempty_typed; eauto.
    - subst n. destruct d as [v| |]; [destruct v|..];
        try (rb H eb Heb; ok_inj H; cbn [length]; lia).
      ok_inj H. cbn; lia.
    - destruct d as [v|l|]; [destruct v; try discriminate| |discriminate].
      + apply (sarr_null c bs []) in H. tauto.
      + rb H p Hp. rb H b Hb. ok_inj H. apply (sarr_prefix c _ p []) in Hp.
        rewrite app_length. lia.
  Qed.

  Lemma scodec_nonempty r d bs :
    item_nonempty E r = true -> codec_ok r = true -> conf_codec ec cfc r d = true ->
    spec_codec sencc r d = Ok bs -> (1 <= length bs)%nat.
  Proof.
    intros Hn Hok Ht H.
    destruct (top_nonempty r) eqn:Etop; [eapply scodec_nonempty_top; eauto|].
    destruct r as [p|j n|c r]; cbn [top_nonempty] in Etop; try discriminate. subst n.
    cbn [item_nonempty orb] in Hn. cbn [conf_codec spec_codec] in Ht, H.
    destruct (nth_error E j) as [cj|] eqn:Ej; [|discriminate].
    destruct d as [v| |]; [destruct v|..]; try discriminate; eapply Hne; eauto.
  Qed.

  Theorem scodec_rt : forall r d bs tl,
    refs_lt i r = true -> items_nonempty E r = true -> codec_ok r = true ->
    conf_codec ec cfc r d = true -> spec_codec sencc r d = Ok bs ->
    (length (bs ++ tl) < fuel)%nat ->
    run (dec_codec ec fuel decc r) (bs ++ tl) = Ok (erase d, tl).
  Proof.
    induction r as [p|j n|c r IH]; intros d bs tl Hlt Hin Hok Ht H Hf.
    - cbn [dec_codec spec_codec conf_codec] in *.
      destruct d as [v| |]; try discriminate. rewrite spec_prim_eq in H. cbn [erase].
      eapply prim_roundtrip; [apply psub_refl|exact Ht|exact H].
    - cbn [refs_lt] in Hlt. apply Nat.ltb_lt in Hlt.
      cbn [dec_codec spec_codec conf_codec] in *. destruct n.
      + destruct d as [v| |]; [destruct v|..];
          try (rb H eb Heb; ok_inj H; change ((1 :: eb) ++ tl) with (1 :: (eb ++ tl));
               rewrite run_bind, read_marker_one; cbn [Z.eqb Pos.eqb];
               apply Hcls; [exact Hlt|exact Ht|exact Heb|cbn [app length] in Hf; lia]).
        ok_inj H. cbn [app erase]. rewrite run_bind, read_marker_null. reflexivity.
      + destruct d as [v| |]; [destruct v|..]; try discriminate; apply Hcls; auto.
    - cbn [refs_lt codec_ok] in Hlt, Hok. cbn [items_nonempty] in Hin.
      apply andb_true_iff in Hin. destruct Hin as [Hin Hitem].
      change (item_nonempty E r = true) in Hitem.
      cbn [dec_codec spec_codec conf_codec] in *.
      destruct d as [v|items|]; [destruct v; try discriminate| |discriminate].
      + (* null array *)
        rewrite run_bind. destruct (sarr_null c bs tl H) as [-> _]. reflexivity.
      + rb H p Hp. rb H b Hb. ok_inj H. apply andb_true_iff in Ht. destruct Ht as [Hall Hsz].
        rewrite forallb_forall in Hall. rewrite rcat_rconcat in Hb.
        rewrite <- app_assoc, run_bind.
        destruct (sarr_prefix c _ p (b ++ tl) Hp) as [-> _].
        rewrite zlen_neq_m1, run_bind.
        assert (Hb2: (length (b ++ tl) < fuel)%nat) by (eapply length_app_tl; exact Hf).
        rewrite (run_repeat_concat (dec_codec ec fuel decc r) (spec_codec sencc r) erase fuel
                   items b tl fuel); [reflexivity| |exact Hb|exact Hb2|].
        * intros x y tl' Hx Hy Hl. apply IH; auto.
        * assert (length items <= length b)%nat.
          { eapply rconcat_length_ge; [|exact Hb]. intros x y Hx Hy.
            eapply scodec_nonempty; eauto. }
          rewrite app_length in Hb2. lia.
  Qed.

  (* ---- fields ---- *)
  Lemma conf_fields_length : forall fs ds send,
    conf_fields ec cfc fs ds send = true -> length fs = length ds.
  Proof.
    induction fs as [|f fs IH]; intros [|d ds] [|s send] H; cbn [conf_fields] in H;
      try discriminate; [reflexivity|].
    apply andb_true_iff in H. destruct H as [_ H]. cbn [length]. f_equal. eauto.
  Qed.

  Lemma sregular_rt fl : forall fs ds send bs tl,
    forallb (wf_field E i fl) fs = true -> conf_fields ec cfc fs ds send = true ->
    spec_regular sencc fs ds = Ok bs -> (length (bs ++ tl) < fuel)%nat ->
    run (dec_regular ec fuel decc (map rd fs)) (bs ++ tl)
    = Ok (regular_vals fs (map erase ds), tl).
  Proof.
    induction fs as [|f fs IH]; intros [|d ds] [|s send] bs tl Hwf Ht H Hf;
      cbn [conf_fields] in Ht; try discriminate.
    - cbn in H. ok_inj H. reflexivity.
    - cbn [map spec_regular dec_regular regular_vals] in *. cbn [rd fp_tag fp_codec] in *.
      cbn [forallb] in Hwf. apply andb_true_iff in Hwf. destruct Hwf as [Hwf1 Hwf].
      apply andb_true_iff in Ht. destruct Ht as [Ht1 Ht].
      destruct (f2_tag f) as [t|] eqn:Etag.
      + eapply IH; eauto.
      + rb H a Ha. rb H b Hb. ok_inj H.
        apply wf_field_inv_r in Hwf1. destruct Hwf1 as [Hlt [Hin [Hok _]]].
        rewrite <- app_assoc, run_bind.
        rewrite (scodec_rt (f2_r f) d a (b ++ tl)); auto; [|rewrite app_assoc; exact Hf].
        rewrite run_bind, (IH ds send b tl); auto. eapply length_app_tl; eauto.
  Qed.

  (* the tags of the known entries are tags of the class *)
  Lemma known_keys : forall fs ds send known t,
    spec_known sencc fs ds send = Ok known -> In t (map fst known) -> In t (tags_of fs).
  Proof.
    induction fs as [|f fs IH]; intros [|d ds] [|s send] known t H Hin; cbn [spec_known] in H;
      try discriminate.
    - ok_inj H. destruct Hin.
    - rb H rest Hrest. rewrite tags_of_cons.
      destruct (f2_tag f) as [t0|]; [|ok_inj H; eapply IH; eauto].
      destruct (s || negb (val_eqb (erase d) (f2_default f))).
      + rb H pay Hpay. ok_inj H. cbn [map fst In] in Hin.
        destruct Hin as [<-|Hin]; [left; reflexivity|right; eapply IH; eauto].
      + ok_inj H. right. eapply IH; eauto.
  Qed.

  (* every known entry is the reader-codec encoding of a conforming field value *)
  Lemma known_good : forall fs ds send known e,
    nodup_z (tags_of fs) = true -> conf_fields ec cfc fs ds send = true ->
    spec_known sencc fs ds send = Ok known -> In e known ->
    exists f d, In f fs /\ f2_tag f = Some (fst e) /\ conf_codec ec cfc (f2_r f) d = true /\
                spec_codec sencc (f2_r f) d = Ok (snd e) /\
                tag_val fs ds (fst e) = Some (erase d).
  Proof.
    induction fs as [|f fs IH]; intros [|d ds] [|s send] known e Hnd Ht H Hin;
      cbn [spec_known] in H; try discriminate.
    - ok_inj H. destruct Hin.
    - rb H rest Hrest. cbn [conf_fields] in Ht. apply andb_true_iff in Ht.
      destruct Ht as [Ht1 Ht]. rewrite tags_of_cons in Hnd. cbn [tag_val].
      assert (Hmono: forall e, nodup_z (tags_of fs) = true -> In e rest ->
                (forall t0, f2_tag f = Some t0 -> fst e <> t0) ->
                exists f0 d0, In f0 (f :: fs) /\ f2_tag f0 = Some (fst e) /\
                  conf_codec ec cfc (f2_r f0) d0 = true /\
                  spec_codec sencc (f2_r f0) d0 = Ok (snd e) /\
                  match f2_tag f with
                  | Some t' => if fst e =? t' then Some (erase d) else tag_val fs ds (fst e)
                  | None => tag_val fs ds (fst e)
                  end = Some (erase d0)).
      { intros e' Hnd' Hin' Hneq.
        destruct (IH ds send rest e' Hnd' Ht Hrest Hin') as [f0 [d0 [H1 [H2 [H3 [H4 H5]]]]]].
        exists f0, d0. repeat split; auto; [right; exact H1|].
        destruct (f2_tag f) as [t'|]; [|exact H5].
        destruct (Z.eqb_spec (fst e') t') as [Heq|_]; [|exact H5].
        exfalso. eapply Hneq; eauto. }
      destruct (f2_tag f) as [t0|] eqn:Et.
      + cbn [nodup_z] in Hnd. apply andb_true_iff in Hnd. destruct Hnd as [Hn1 Hn2].
        apply negb_true_iff in Hn1. apply existsb_eqb_false in Hn1.
        assert (Hneq: forall e', In e' rest -> forall t1, Some t0 = Some t1 -> fst e' <> t1).
        { intros e' Hin' t1 Heq Hc. injection Heq as Heq. apply Hn1. rewrite Heq, <- Hc.
          eapply known_keys; [exact Hrest|]. apply in_map. exact Hin'. }
        destruct (s || negb (val_eqb (erase d) (f2_default f))) eqn:Es.
        * rb H pay Hpay. ok_inj H. destruct Hin as [<-|Hin]; [|apply Hmono; auto].
          exists f, d. cbn [fst snd]. rewrite Z.eqb_refl.
          repeat split; auto. left. reflexivity.
        * ok_inj H. apply Hmono; auto.
      + ok_inj H. apply Hmono; auto. intros t0 Hd. discriminate.
  Qed.

  Lemma sentry_nonempty e b : spec_entry e = Ok b -> (1 <= length b)%nat.
  Proof.
    unfold spec_entry. intros H. rb H t Ht. rb H sz Hsz. ok_inj H.
    apply spec_len_compact_nonempty in Ht. rewrite app_length. lia.
  Qed.

  Lemma sentry_known_rt fl fs ds send known e b tl :
    forallb (wf_field E i fl) fs = true -> nodup_z (tags_of fs) = true ->
    conf_fields ec cfc fs ds send = true -> spec_known sencc fs ds send = Ok known ->
    In e known -> spec_entry e = Ok b -> (length (b ++ tl) < fuel)%nat ->
    run (dec_one_tag ec fuel decc (map rd fs)) (b ++ tl) = Ok (entry_res fs ds e, tl).
  Proof.
    intros Hwf Hnd Hcf Hk Hin H Hlen.
    destruct (known_good fs ds send known e Hnd Hcf Hk Hin) as [f [d [Hf [Htag [Hty [Hpay Htv]]]]]].
    rewrite forallb_forall in Hwf. apply Hwf in Hf as Hwff.
    apply wf_field_inv_r in Hwff. destruct Hwff as [Hlt [Hitems [Hok _]]].
    unfold spec_entry in H. rb H tb Htb. rb H sz Hsz. ok_inj H.
    unfold dec_one_tag. rewrite <- !app_assoc, run_bind.
    rewrite (spec_read_uvarint _ _ _ Htb), run_bind, (spec_read_uvarint _ _ _ Hsz).
    rewrite (find_tag_rd fs f (fst e) Hnd Hf Htag). cbn [rd fp_codec].
    rewrite run_bind, (scodec_rt (f2_r f) d (snd e) tl); auto.
    - unfold entry_res. rewrite Htv. reflexivity.
    - rewrite !app_length in Hlen. rewrite app_length. lia.
  Qed.

  Lemma sentry_unknown_rt fs ds e b tl :
    ~ In (fst e) (tags_of fs) -> spec_entry e = Ok b ->
    run (dec_one_tag ec fuel decc (map rd fs)) (b ++ tl) = Ok (entry_res fs ds e, tl).
  Proof.
    intros Hnk H.
    unfold spec_entry in H. rb H tb Htb. rb H sz Hsz. ok_inj H.
    unfold dec_one_tag. rewrite <- !app_assoc, run_bind.
    rewrite (spec_read_uvarint _ _ _ Htb), run_bind, (spec_read_uvarint _ _ _ Hsz).
    rewrite (find_tag_none fs (fst e) Hnk).
    rewrite run_read_app by reflexivity.
    unfold entry_res. rewrite (tag_val_none fs ds (fst e) Hnk). reflexivity.
  Qed.

  (* the decoded tag list determines every tagged field *)
  Lemma known_Pfield D : forall fs ds send known,
    nodup_z (tags_of fs) = true -> spec_known sencc fs ds send = Ok known ->
    (forall t v, In (t, v) D -> In t (tags_of fs) -> tag_val fs ds t = Some v) ->
    (forall t, In t (tags_of fs) -> (In t (map fst D) <-> In t (map fst known))) ->
    Forall2 (Pfield' D) fs (map erase ds).
  Proof.
    induction fs as [|f fs IH]; intros [|d ds] [|s send] known Hnd H HD1 HD2;
      cbn [spec_known] in H; try discriminate; [constructor|].
    rb H rest Hrest. cbn [map]. rewrite tags_of_cons in Hnd.
    assert (HD1': forall t0, f2_tag f = Some t0 -> ~ In t0 (tags_of fs) ->
              forall t v, In (t, v) D -> In t (tags_of fs) -> tag_val fs ds t = Some v).
    { intros t0 Et Hn t v Hin Ht. specialize (HD1 t v Hin). rewrite tags_of_cons, Et in HD1.
      specialize (HD1 (or_intror Ht)). cbn [tag_val] in HD1. rewrite Et in HD1.
      destruct (Z.eqb_spec t t0) as [->|_]; [contradiction|exact HD1]. }
    destruct (f2_tag f) as [t0|] eqn:Et.
    - cbn [nodup_z] in Hnd. apply andb_true_iff in Hnd. destruct Hnd as [Hn1 Hn2].
      apply negb_true_iff in Hn1. apply existsb_eqb_false in Hn1.
      assert (Hnr: ~ In t0 (map fst rest)).
      { intros Hin. apply Hn1. eapply known_keys; eauto. }
      destruct (s || negb (val_eqb (erase d) (f2_default f))) eqn:Es.
      + rb H pay Hpay. ok_inj H. constructor.
        * intros t Ht. rewrite Et in Ht. injection Ht as <-. left.
          assert (Hin: In t0 (map fst D)).
          { apply HD2; [rewrite tags_of_cons, Et; left; reflexivity|]. left. reflexivity. }
          destruct (assoc_last_of_in t0 D Hin) as [v Hv]. rewrite Hv. f_equal.
          apply assoc_last_some_in in Hv.
          assert (Htv: tag_val (f :: fs) (d :: ds) t0 = Some v).
          { apply HD1; [exact Hv|]. rewrite tags_of_cons, Et. left. reflexivity. }
          cbn [tag_val] in Htv. rewrite Et, Z.eqb_refl in Htv. congruence.
        * apply (IH ds send rest Hn2 Hrest); [apply (HD1' t0 eq_refl Hn1)|].
          intros t Ht. rewrite (HD2 t) by (rewrite tags_of_cons, Et; right; exact Ht).
          cbn [map fst In]. split; [|auto]. intros [<-|Hin]; [contradiction|exact Hin].
      + ok_inj H. constructor.
        * intros t Ht. rewrite Et in Ht. injection Ht as <-. right. split.
          -- apply assoc_last_notin. intros Hin. apply Hnr. apply HD2; [|exact Hin].
             rewrite tags_of_cons, Et. left. reflexivity.
          -- apply orb_false_iff in Es. destruct Es as [_ Es].
             apply negb_false_iff in Es. exact Es.
        * apply (IH ds send known Hn2 Hrest); [apply (HD1' t0 eq_refl Hn1)|].
          intros t Ht. apply HD2. rewrite tags_of_cons, Et. right. exact Ht.
    - ok_inj H. constructor; [intros t Ht; congruence|].
      apply (IH ds send known Hnd Hrest).
      + intros t v Hin Ht. specialize (HD1 t v Hin). rewrite tags_of_cons, Et in HD1.
        specialize (HD1 Ht). cbn [tag_val] in HD1. rewrite Et in HD1. exact HD1.
      + intros t Ht. apply HD2. rewrite tags_of_cons, Et. exact Ht.
  Qed.

  (* ---- entities ---- *)
  Lemma sregular_nonempty : forall fs ds send bs,
    existsb field_nonempty fs = true ->
    (forall f, In f fs -> codec_ok (f2_r f) = true /\ (f2_tag f = None -> f2_w f = f2_r f)) ->
    conf_fields ec cfc fs ds send = true -> spec_regular sencc fs ds = Ok bs ->
    (1 <= length bs)%nat.
  Proof.
    induction fs as [|f fs IH]; intros [|d ds] [|s send] bs Hex Hok Ht H;
      cbn [conf_fields] in Ht; try discriminate.
    cbn [spec_regular] in H. apply andb_true_iff in Ht. destruct Ht as [Ht1 Ht].
    cbn [existsb] in Hex. destruct (field_nonempty f) eqn:Ef.
    - apply field_nonempty_top in Ef. destruct Ef as [Etag Etop]. rewrite Etag in *.
      destruct (Hok f (or_introl eq_refl)) as [Hokr Hwr]. rewrite (Hwr Etag) in Etop.
      rb H a Ha. rb H b Hb. ok_inj H. rewrite app_length.
      assert (1 <= length a)%nat; [|lia]. eapply scodec_nonempty_top; eauto.
    - cbn [orb] in Hex.
      assert (Hrec: forall b, spec_regular sencc fs ds = Ok b -> (1 <= length b)%nat).
      { intros b Hb. eapply IH; eauto. intros g Hg. apply Hok. right. exact Hg. }
      destruct (f2_tag f); [auto|].
      rb H a Ha. rb H b Hb. ok_inj H. rewrite app_length. apply Hrec in Hb. lia.
  Qed.

  Lemma conf_entity_inv c d : conf_entity ec cfc c d = true ->
    exists ds send unknown, d = DEnt ds send unknown /\
      conf_fields ec cfc (c2_fields c) ds send = true /\
      (c2_flexible c = false -> unknown = []) /\
      (forall u, In u unknown -> ~ In (fst u) (tags_of (c2_fields c))).
  Proof.
    destruct d as [v|l|ds send unknown]; cbn [conf_entity]; try discriminate. intros H.
    apply andb_true_iff in H. destruct H as [H _].
    apply andb_true_iff in H. destruct H as [H Hunk].
    apply andb_true_iff in H. destruct H as [Hcf Hfl].
    exists ds, send, unknown. repeat split; auto.
    - intros Ef. rewrite Ef in Hfl. destruct unknown; [reflexivity|discriminate].
    - intros u Hu. rewrite forallb_forall in Hunk. apply Hunk in Hu.
      repeat (apply andb_true_iff in Hu; let H' := fresh "H" in destruct Hu as [Hu H']).
      apply negb_true_iff in Hu. apply existsb_eqb_false in Hu. exact Hu.
  Qed.

  Lemma sentity_nonempty k c d bs :
    class_nonempty c = true -> wf_class E k c = true -> conf_entity ec cfc c d = true ->
    spec_entity sencc c d = Ok bs -> (1 <= length bs)%nat.
  Proof.
    intros Hn Hwf Ht H.
    destruct (conf_entity_inv c d Ht) as [ds [send [unknown [-> [Hcf [Hfl Hunk]]]]]].
    cbn [spec_entity] in H. rb H r Hr. unfold class_nonempty in Hn.
    destruct (c2_flexible c).
    - rb H known Hk. cbv zeta in H. rb H t Hent. rb H n Hn'. ok_inj H.
      apply spec_len_compact_nonempty in Hn'. rewrite !app_length. lia.
    - rewrite (Hfl eq_refl) in H. ok_inj H. cbn [orb] in Hn.
      eapply sregular_nonempty; eauto.
      intros f Hf. unfold wf_class in Hwf. apply andb_true_iff in Hwf. destruct Hwf as [Hwf _].
      rewrite forallb_forall in Hwf. apply Hwf in Hf. apply wf_field_inv_r in Hf. tauto.
  Qed.

  Theorem sentity_rt c d bs tl :
    wf_class E i c = true -> conf_entity ec cfc c d = true ->
    spec_entity sencc c d = Ok bs -> (length (bs ++ tl) < fuel)%nat ->
    run (dec_entity ec fuel decc (reader_plan c)) (bs ++ tl) = Ok (erase d, tl).
  Proof.
    intros Hwf Ht H Hlen. unfold wf_class in Hwf. apply andb_true_iff in Hwf.
    destruct Hwf as [Hwf Hnd].
    destruct (conf_entity_inv c d Ht) as [ds [send [unknown [-> [Hcf [Hfl Hunk]]]]]].
    pose proof (conf_fields_length _ _ _ Hcf) as Hl.
    cbn [spec_entity] in H. rewrite dec_entity_unfold. rb H r Hr. cbn [erase].
    destruct (c2_flexible c) eqn:Efl.
    - cbn [negb andb]. rb H known Hk. cbv zeta in H. rb H t Hent. rb H n Hn. ok_inj H.
      set (fs := c2_fields c) in *.
      set (ENT := TagSort.sort (known ++ unknown)) in *.
      assert (Hperm: Permutation (known ++ unknown) ENT) by apply TagSort.Permuted_sort.
      rewrite rcat_rconcat in Hent.
      rewrite <- !app_assoc in *. rewrite run_bind.
      rewrite (sregular_rt true fs ds send r (n ++ t ++ tl)); auto.
      assert (Hl2: (length (t ++ tl) < fuel)%nat) by (rewrite !app_length in *; lia).
      rewrite run_bind, (spec_read_uvarint _ _ _ Hn), run_bind.
      rewrite (run_repeat_concat (dec_one_tag ec fuel decc (map rd fs))
                 spec_entry (entry_res fs ds) fuel ENT t tl fuel); [| |exact Hent|exact Hl2|].
      + cbn [run]. rewrite fill_ok'; [reflexivity|].
        apply (known_Pfield _ fs ds send known Hnd Hk).
        * (* every decoded pair carries the value of the field with that tag *)
          intros x v Hin _. apply keep_some_in in Hin. apply in_map_iff in Hin.
          destruct Hin as [e [He _]]. unfold entry_res in He.
          destruct (tag_val fs ds (fst e)) as [v'|] eqn:Etv; [|discriminate].
          injection He as <- <-. exact Etv.
        * (* a tag of the class is decoded iff it is among the known entries *)
          intros x Hx. split.
          -- intros Hin. apply in_map_iff in Hin. destruct Hin as [[x' v] [Hfst Hin]].
             cbn [fst] in Hfst. subst x'.
             apply keep_some_in in Hin. apply in_map_iff in Hin.
             destruct Hin as [e [He Hin]]. unfold entry_res in He.
             destruct (tag_val fs ds (fst e)) as [v'|]; [|discriminate].
             injection He as <- <-.
             apply (Permutation_in _ (Permutation_sym Hperm)) in Hin.
             apply in_app_iff in Hin. destruct Hin as [Hin|Hin].
             ++ apply in_map. exact Hin.
             ++ exfalso. apply (Hunk e Hin). exact Hx.
          -- intros Hin. apply in_map_iff in Hin. destruct Hin as [e [Hfst Hin]].
             destruct (tag_val_some fs ds x Hl Hx) as [v Hv].
             apply in_map_iff. exists (x, v). split; [reflexivity|].
             apply keep_some_in. apply in_map_iff. exists e. split.
             ++ unfold entry_res. rewrite Hfst, Hv. reflexivity.
             ++ apply (Permutation_in _ Hperm). apply in_app_iff. left. exact Hin.
      + intros e b tl' He Hb Hl'.
        apply (Permutation_in _ (Permutation_sym Hperm)) in He.
        apply in_app_iff in He. destruct He as [He|He].
        * eapply sentry_known_rt; eauto.
        * apply sentry_unknown_rt; [apply (Hunk e He)|exact Hb].
      + assert (length ENT <= length t)%nat.
        { eapply rconcat_length_ge; [|exact Hent]. intros x y _ Hy. eapply sentry_nonempty; eauto. }
        rewrite app_length in Hl2. lia.
    - rewrite (Hfl eq_refl) in H. ok_inj H. cbn [negb andb].
      rewrite (wf_no_tags E i _ Hwf). rewrite run_bind.
      rewrite (sregular_rt false (c2_fields c) ds send bs tl); auto.
      cbn [run]. rewrite fill_ok; [reflexivity|]. apply no_tags_Pfield.
      + apply has_tag2_false. apply (wf_no_tags E i _ Hwf).
      + rewrite map_length. exact Hl.
  Qed.
End SpecLevel.

(* ------------------------------------------------------------------------------------------ *)
(* environments: the induction on the rank *)
Lemma sclass_nonempty_len E ec : wf_env E = true -> forall r j cj d b,
  nth_error E j = Some cj -> class_nonempty cj = true ->
  conf_class E ec r j d = true -> spec_class E r j d = Ok b -> (1 <= length b)%nat.
Proof.
  intros Hwf r j cj d b Hj Hne Ht H. destruct r as [|r]; [discriminate|].
  cbn [conf_class spec_class] in Ht, H. rewrite Hj in Ht, H.
  eapply sentity_nonempty; eauto. eapply wf_env_nth; eauto.
Qed.

Theorem sclass_rt E ec fuel : wf_env E = true -> forall r i, (i < r)%nat -> forall d bs tl,
  conf_class E ec r i d = true -> spec_class E r i d = Ok bs ->
  (length (bs ++ tl) < fuel)%nat ->
  run (dec_class (map reader_plan E) ec fuel r i) (bs ++ tl) = Ok (erase d, tl).
Proof.
  intros Hwf. induction r as [|r IH]; intros i Hi d bs tl Ht H Hlen; [lia|].
  cbn [conf_class spec_class dec_class] in *. rewrite nth_error_map.
  destruct (nth_error E i) as [c|] eqn:Ei; [|discriminate]. cbn [option_map].
  eapply (sentity_rt E ec fuel (spec_class E r) (dec_class (map reader_plan E) ec fuel r)
            (conf_class E ec r) i); eauto.
  - intros j d' b tl' Hj. apply IH. lia.
  - intros j cj d' b. apply sclass_nonempty_len. exact Hwf.
  - eapply wf_env_nth; eauto.
Qed.

(* ------------------------------------------------------------------------------------------ *)
(* C03 *)
Theorem decode_conforming_fuel : forall (E : list cplan2) (ec : list Z), wf_env E = true ->
  forall i d bs tl fuel,
  conforming E ec i d = true ->
  spec_enc E i d = Ok bs ->
  (length (bs ++ tl) < fuel)%nat ->
  run (decoder (map reader_plan E) ec i fuel) (bs ++ tl) = Ok (erase d, tl).
Proof.
  intros E ec Hwf i d bs tl fuel Ht H Hlen. unfold conforming, spec_enc, decoder in *.
  eapply sclass_rt; eauto.
Qed.

Theorem decode_conforming : forall (E : list cplan2) (ec : list Z), wf_env E = true ->
  forall i d bs tl,
  conforming E ec i d = true ->
  spec_enc E i d = Ok bs ->
  decode (map reader_plan E) ec i (bs ++ tl) = Ok (erase d, tl).
Proof.
  intros E ec Hwf i d bs tl Ht H. unfold decode. eapply decode_conforming_fuel; eauto.
Qed.
Print Assumptions decode_conforming.

(* unknown tagged fields are skipped, at every nesting level: the result is the plain value,
   which does not mention them *)
Corollary unknown_tags_skipped : forall E ec, wf_env E = true -> forall i d bs,
  conforming E ec i d = true -> spec_enc E i d = Ok bs ->
  exists v, decode (map reader_plan E) ec i bs = Ok (v, []) /\ v = erase d.
Proof.
  intros E ec Hwf i d bs Ht H. exists (erase d). split; [|reflexivity].
  rewrite <- (app_nil_r bs). eapply decode_conforming; eauto.
Qed.
Print Assumptions unknown_tags_skipped.

(* two conforming encodings that differ only in their decorations (unknown tagged fields,
   defaults sent explicitly) decode to the same value *)
Corollary decode_ignores_decorations : forall E ec, wf_env E = true -> forall i d1 d2 b1 b2 tl1 tl2,
  conforming E ec i d1 = true -> conforming E ec i d2 = true -> erase d1 = erase d2 ->
  spec_enc E i d1 = Ok b1 -> spec_enc E i d2 = Ok b2 ->
  rmap fst (decode (map reader_plan E) ec i (b1 ++ tl1))
  = rmap fst (decode (map reader_plan E) ec i (b2 ++ tl2)).
Proof.
  intros E ec Hwf i d1 d2 b1 b2 tl1 tl2 H1 H2 He Hb1 Hb2.
  rewrite (decode_conforming E ec Hwf i d1 b1 tl1 H1 Hb1).
  rewrite (decode_conforming E ec Hwf i d2 b2 tl2 H2 Hb2). cbn [rmap fst]. rewrite He. reflexivity.
Qed.

(* absent tagged fields take their default: a tagged field whose tag is not among the known
   entries on the wire holds its default ... *)
Lemma absent_is_default sencc : forall fs ds send known,
  spec_known sencc fs ds send = Ok known ->
  forall k f d t, nth_error fs k = Some f -> nth_error ds k = Some d -> f2_tag f = Some t ->
  ~ In t (map fst known) -> erase d = f2_default f.
Proof.
  induction fs as [|f fs IH]; intros [|d ds] [|s send] known H k f' d' t Hf Hd Htag Hnot;
    cbn [spec_known] in H; try discriminate; [destruct k; discriminate|].
  rb H rest Hrest. destruct k as [|k]; cbn [nth_error] in Hf, Hd.
  - injection Hf as <-. injection Hd as <-. rewrite Htag in H.
    destruct (s || negb (val_eqb (erase d) (f2_default f))) eqn:Es.
    + rb H pay Hpay. ok_inj H. exfalso. apply Hnot. left. reflexivity.
    + apply orb_false_iff in Es. destruct Es as [_ Es]. apply negb_false_iff in Es.
      apply val_eqb_eq. exact Es.
  - apply (IH ds send rest Hrest k f' d' t Hf Hd Htag). intros Hin. apply Hnot.
    destruct (f2_tag f) as [t0|]; [|ok_inj H; exact Hin].
    destruct (s || negb (val_eqb (erase d) (f2_default f))).
    + rb H pay Hpay. ok_inj H. right. exact Hin.
    + ok_inj H. exact Hin.
Qed.

(* ... and this is what the decoder returns for it *)
Corollary absent_tag_default : forall E ec, wf_env E = true ->
  forall i c ds send unknown bs tl known,
  nth_error E i = Some c ->
  conforming E ec i (DEnt ds send unknown) = true ->
  spec_enc E i (DEnt ds send unknown) = Ok bs ->
  spec_known (spec_class E i) (c2_fields c) ds send = Ok known ->
  forall k f t, nth_error (c2_fields c) k = Some f -> f2_tag f = Some t ->
  ~ In t (map fst known) ->
  exists vs, decode (map reader_plan E) ec i (bs ++ tl) = Ok (VEnt vs, tl) /\
             nth_error vs k = Some (f2_default f).
Proof.
  intros E ec Hwf i c ds send unknown bs tl known Hc Ht H Hk k f t Hf Htag Hnot.
  exists (map erase ds). split; [apply (decode_conforming E ec Hwf i _ bs tl Ht H)|].
  unfold conforming in Ht. cbn [conf_class] in Ht. rewrite Hc in Ht.
  destruct (conf_entity_inv _ _ _ _ Ht) as [ds' [send' [unk' [Heq [Hcf _]]]]].
  injection Heq as <- <- <-. apply conf_fields_length in Hcf.
  destruct (nth_error ds k) as [d|] eqn:Ed.
  - rewrite nth_error_map, Ed. cbn [option_map]. f_equal.
    eapply absent_is_default; eauto.
  - exfalso. apply nth_error_None in Ed. assert (k < length (c2_fields c))%nat; [|lia].
    apply nth_error_Some. congruence.
Qed.
Print Assumptions absent_tag_default.

(* ------------------------------------------------------------------------------------------ *)
(* the hypotheses are satisfiable by a forward-compatible message: a flexible class with one
   nullable tagged string (default null); the peer sends an explicit null for it and adds the
   unknown tags 7 and 5 (sorted on the wire: 0, 5, 7) *)
Definition ex_field : fplan2 :=
  {| f2_name := String.EmptyString; f2_r := CPrim (PStr true true);
     f2_w := CPrim (PStr true false); f2_tag := Some 0; f2_default := VNull |}.
Definition ex_env : list cplan2 :=
  [ {| c2_name := String.EmptyString; c2_flexible := true; c2_fields := [ex_field] |} ].
Definition ex_msg : dvalue := DEnt [DLeaf VNull] [true] [(7, [9]); (5, [1; 2; 3])].

Example ex_conforming :
  wf_env ex_env = true /\ conforming ex_env [] 0 ex_msg = true /\
  spec_enc ex_env 0 ex_msg = Ok [3; 0; 1; 0; 5; 3; 1; 2; 3; 7; 1; 9] /\
  decode (map reader_plan ex_env) [] 0 [3; 0; 1; 0; 5; 3; 1; 2; 3; 7; 1; 9] = Ok (VEnt [VNull], []).
Proof. vm_compute. repeat split; reflexivity. Qed.
