(* The Kafka wire format written from the protocol guide, independently of how kio's writers
   are structured: closed-form arithmetic for the primitives, declaration order for fields,
   ascending tag order for the tagged section.  `spec_enc` encodes a DECORATED value: besides
   the field values it says which tagged fields a peer chooses to send although they hold their
   default, and which unknown tagged fields (tag, raw payload) it adds - i.e. every encoding a
   conforming peer may produce (C03).  With no decorations it is the canonical encoding (C02).
   Definitions only. *)
From Coq Require Import ZArith List Bool Sorting.Mergesort Orders.
From KioV Require Import Base.Res Prim.Utf8 Prim.Time Codec.Value Codec.PrimCodec Schema.Introspect.
Import ListNotations.
Open Scope Z_scope.

(* ---- primitives, in closed form ---- *)
(* the w-byte big-endian representation of u mod 256^w: byte k (from the left) is
   floor(u / 256^(w-1-k)) mod 256 *)
Definition spec_be (w : nat) (u : Z) : list Z :=
  map (fun k => (u / 256 ^ Z.of_nat (w - 1 - k)) mod 256) (seq 0 w).

(* two's complement: a signed z in range is represented by z mod 2^(8w) *)
Definition spec_int (w : nat) (signed : bool) (z : Z) : res (list Z) :=
  let lo := if signed then - 2 ^ (8 * Z.of_nat w - 1) else 0 in
  let hi := if signed then 2 ^ (8 * Z.of_nat w - 1) - 1 else 2 ^ (8 * Z.of_nat w) - 1 in
  if (lo <=? z) && (z <=? hi) then Ok (spec_be w (z mod 2 ^ (8 * Z.of_nat w))) else Err EStruct.

(* unsigned varint: the minimal number of 7-bit groups, least significant first, bit 7 set on
   all but the last *)
Definition spec_groups (n : Z) : nat := Z.to_nat (Z.log2 n / 7 + 1).
Definition spec_uvarint (n : Z) : list Z :=
  let k := spec_groups n in
  map (fun i => let g := (n / 128 ^ Z.of_nat i) mod 128 in
                if Nat.eqb (S i) k then g else g + 128) (seq 0 k).

Definition spec_len_compact (n : Z) : res (list Z) :=
  if (0 <=? n) && (n <=? 2 ^ 35 - 1) then Ok (spec_uvarint n) else Err EType.

Definition spec_blob (compact nullable : bool) (w : nat) (v : option (list Z)) : res (list Z) :=
  match v with
  | None => if nullable then (if compact then Ok [0] else spec_int w true (-1)) else Err EType
  | Some b =>
      if compact then rbind (spec_len_compact (zlen b + 1)) (fun p => Ok (p ++ b))
      else if (zlen b <=? 2 ^ (8 * Z.of_nat w - 1) - 1) then rbind (spec_int w true (zlen b)) (fun p => Ok (p ++ b))
           else Err EOutOfBound
  end.

(* whole milliseconds, rounding half to even *)
Definition spec_millis (us : Z) : Z :=
  let q := us / 1000 in let r := us - q * 1000 in
  if (r <? 500) then q else if (500 <? r) then q + 1 else if Z.even q then q else q + 1.

Definition spec_prim (p : pcodec) (v : value) : res (list Z) :=
  match p, v with
  | PInt w s, VInt z => spec_int w s z
  | PF64, VF64 bits => spec_int 8 false bits
  | PBool, VBool b => Ok [if b then 1 else 0]
  | PErrorCode, VInt z => spec_int 2 true z
  | PStr c n, VNull => spec_blob c n 2 None
  | PStr c n, VStr b => spec_blob c n 2 (Some b)
  | PBytes c n, VNull => spec_blob c n 4 None
  | PBytes c n, VBytes b => spec_blob c n 4 (Some b)
  | PUuid, VNull => Ok (repeat 0 16)
  | PUuid, VUuid b => Ok b
  | PTd32, VDur us => spec_int 4 true (spec_millis us)
  | PTd64, VDur us => spec_int 8 true (spec_millis us)
  | PDt n, VNull => if n then spec_int 8 true (-1) else Err EType
  | PDt n, VTime us => spec_int 8 true (spec_millis us)
  | _, _ => Err EType
  end.

(* ---- decorated values ---- *)
Inductive dvalue :=
| DLeaf (v : value)                         (* a primitive value, or null *)
| DArr (items : list dvalue)
| DEnt (fields : list dvalue)               (* one per declared field, tagged ones included *)
       (send_default : list bool)           (* per field: send a tagged field even if default *)
       (unknown : list (Z * list Z)).       (* unknown tagged fields: tag, raw payload *)

Fixpoint erase (d : dvalue) : value :=
  match d with
  | DLeaf v => v
  | DArr l => VArr (map erase l)
  | DEnt fs _ _ => VEnt (map erase fs)
  end.

(* the undecorated view of a value *)
Fixpoint plain (v : value) : dvalue :=
  match v with
  | VArr l => DArr (map plain l)
  | VEnt l => DEnt (map plain l) (map (fun _ => false) l) []
  | other => DLeaf other
  end.

(* ascending tag order: stdlib merge sort on the tag *)
Module TagOrder <: TotalLeBool.
  Definition t := (Z * list Z)%type.
  Definition leb (a b : t) : bool := fst a <=? fst b.
  Theorem leb_total : forall a b, leb a b = true \/ leb b a = true.
  Proof. intros a b. unfold leb. destruct (Z.leb_spec (fst a) (fst b)); [left; reflexivity|right]. apply Z.leb_le. apply Z.lt_le_incl. assumption. Qed.
End TagOrder.
Module TagSort := Sort TagOrder.

Fixpoint rcat (l : list (res (list Z))) : res (list Z) :=
  match l with
  | [] => Ok []
  | x :: tl => rbind x (fun a => rbind (rcat tl) (fun b => Ok (a ++ b)))
  end.

Section Spec.
  Variable spec_class : nat -> dvalue -> res (list Z).

  Fixpoint spec_codec (c : codec) (d : dvalue) : res (list Z) :=
    match c with
    | CPrim p => match d with DLeaf v => spec_prim p v | _ => Err EType end
    | CEnt i nullable =>
        if nullable then
          match d with
          | DLeaf VNull => Ok [255]                           (* marker -1 *)
          | _ => rbind (spec_class i d) (fun b => Ok (1 :: b))   (* marker 1 *)
          end
        else spec_class i d
    | CArr compact item =>
        match d with
        | DLeaf VNull => if compact then Ok [0] else spec_int 4 true (-1)
        | DArr l =>
            rbind (if compact then spec_len_compact (zlen l + 1)
                   else if zlen l <=? 2 ^ 31 - 1 then spec_int 4 true (zlen l) else Err EOutOfBound) (fun p =>
            rbind (rcat (map (spec_codec item) l)) (fun b => Ok (p ++ b)))
        | _ => Err EType
        end
    end.

  (* untagged fields in declaration order *)
  Fixpoint spec_regular (fs : list fplan2) (ds : list dvalue) : res (list Z) :=
    match fs, ds with
    | [], [] => Ok []
    | f :: ftl, d :: dtl =>
        match f2_tag f with
        | Some _ => spec_regular ftl dtl
        | None => rbind (spec_codec (f2_r f) d) (fun a => rbind (spec_regular ftl dtl) (fun b => Ok (a ++ b)))
        end
    | _, _ => Err EType
    end.

  (* the known tagged fields that are sent: non-default ones, and default ones the peer chose
     to send; each with its payload *)
  Fixpoint spec_known (fs : list fplan2) (ds : list dvalue) (send : list bool) : res (list (Z * list Z)) :=
    match fs, ds, send with
    | [], [], [] => Ok []
    | f :: ftl, d :: dtl, s :: stl =>
        rbind (spec_known ftl dtl stl) (fun rest =>
        match f2_tag f with
        | None => Ok rest
        | Some t => if s || negb (val_eqb (erase d) (f2_default f))
                    then rbind (spec_codec (f2_r f) d) (fun payload => Ok ((t, payload) :: rest))
                    else Ok rest
        end)
    | _, _, _ => Err EType
    end.

  Definition spec_entry (e : Z * list Z) : res (list Z) :=
    rbind (spec_len_compact (fst e)) (fun t =>
    rbind (spec_len_compact (zlen (snd e))) (fun sz => Ok (t ++ sz ++ snd e))).

  Definition spec_entity (c : cplan2) (d : dvalue) : res (list Z) :=
    match d with
    | DEnt ds send unknown =>
        rbind (spec_regular (c2_fields c) ds) (fun r =>
        if c2_flexible c then
          rbind (spec_known (c2_fields c) ds send) (fun known =>
          let entries := TagSort.sort (known ++ unknown) in
          rbind (rcat (map spec_entry entries)) (fun t =>
          rbind (spec_len_compact (zlen entries)) (fun n => Ok (r ++ n ++ t))))
        else match unknown with [] => Ok r | _ => Err EType end)
    | _ => Err EType
    end.
End Spec.

Fixpoint spec_class (E : list cplan2) (rank : nat) (i : nat) (d : dvalue) : res (list Z) :=
  match rank with
  | O => Err ERecursion
  | S r => match nth_error E i with
           | None => Err EType
           | Some c => spec_entity (spec_class E r) c d
           end
  end.
Definition spec_enc (E : list cplan2) (i : nat) (d : dvalue) : res (list Z) := spec_class E (S i) i d.

(* ---- which decorated values a conforming peer may send ---- *)
Section Conf.
  Variable ec : list Z.
  Variable conf_class : nat -> dvalue -> bool.

  Fixpoint conf_codec (c : codec) (d : dvalue) : bool :=
    match c with
    | CPrim p => match d with DLeaf v => typed_prim ec p v | _ => false end
    | CEnt i nullable => match d with DLeaf VNull => nullable | _ => conf_class i d end
    | CArr compact item =>
        match d with
        | DLeaf VNull => true
        | DArr l => forallb (conf_codec item) l && (if compact then zlen l + 1 <=? uvarint_hi else zlen l <=? 2147483647)
        | _ => false
        end
    end.

  (* every field value is well-typed for the READER codec (a tagged nullable field may carry an
     explicit null), or - for a tagged field that is not sent - is the default *)
  Fixpoint conf_fields (fs : list fplan2) (ds : list dvalue) (send : list bool) : bool :=
    match fs, ds, send with
    | [], [], [] => true
    | f :: ftl, d :: dtl, s :: stl =>
        (match f2_tag f with
         | None => conf_codec (f2_r f) d
         | Some _ => if s || negb (val_eqb (erase d) (f2_default f)) then conf_codec (f2_r f) d else true
         end) && conf_fields ftl dtl stl
    | _, _, _ => false
    end.

  Definition known_tags (fs : list fplan2) : list Z :=
    flat_map (fun f => match f2_tag f with Some t => [t] | None => [] end) fs.

  Fixpoint nodup_tags (l : list Z) : bool :=
    match l with [] => true | x :: tl => negb (existsb (Z.eqb x) tl) && nodup_tags tl end.

  Definition conf_entity (c : cplan2) (d : dvalue) : bool :=
    match d with
    | DEnt ds send unknown =>
        conf_fields (c2_fields c) ds send
        && (if c2_flexible c then true else match unknown with [] => true | _ => false end)
        (* unknown tags: not known to this schema version, pairwise distinct, in range, with
           byte payloads below the size limit *)
        && forallb (fun u => negb (existsb (Z.eqb (fst u)) (known_tags (c2_fields c)))
                             && (0 <=? fst u) && (fst u <? 2 ^ 31)
                             && bytes_ok (snd u) && (zlen (snd u) <=? 2 ^ 35 - 1)) unknown
        && nodup_tags (map fst unknown)
    | _ => false
    end.
End Conf.

Fixpoint conf_class (E : list cplan2) (ec : list Z) (rank : nat) (i : nat) (d : dvalue) : bool :=
  match rank with
  | O => false
  | S r => match nth_error E i with
           | None => false
           | Some c => conf_entity ec (conf_class E ec r) c d
           end
  end.
Definition conforming (E : list cplan2) (ec : list Z) (i : nat) (d : dvalue) : bool :=
  conf_class E ec (S i) i d.
