(* Primitive readers and writers at the level of values: one definition per function of
   kio.serial.readers / kio.serial.writers that a field can be bound to.  Definitions only. *)
From Coq Require Import ZArith List Bool String.
From KioV Require Import Base.Res Base.Prog Prim.Bytes Prim.Varint Prim.Utf8 Prim.Time Codec.Value.
Import ListNotations.
Open Scope Z_scope.

Section WithErrorCodes.
Variable error_codes : list Z.     (* the values of kio.schema.errors.ErrorCode *)

Definition known_error_code (z : Z) : bool := existsb (Z.eqb z) error_codes.

(* ---- readers ---- *)
Definition read_boolean : prog value := Read 1 (fun b => Ret (VBool (negb (hd 0 b =? 0)))).
Definition read_float64 : prog value := z <- read_int 8 false ;; Ret (VF64 z).
Definition read_uuid : prog value :=
  Read 16 (fun b => Ret (if forallb (Z.eqb 0) b then VNull else VUuid b)).
Definition read_error_code : prog value :=
  z <- read_int 2 true ;; if known_error_code z then Ret (VInt z) else Fail EValue.

Definition decode_str (b : list Z) : prog value :=
  if utf8_valid b then Ret (VStr b) else Fail EValue.

(* compact: unsigned varint of length+1, 0 = null *)
Definition read_compact_len : prog Z := n <- read_uvarint ;; Ret (n - 1).
Definition read_compact_bytes (nullable : bool) : prog value :=
  len <- read_compact_len ;;
  if len =? -1 then (if nullable then Ret VNull else Fail EUnexpectedNull)
  else Read len (fun b => Ret (VBytes b)).
Definition read_compact_string (nullable : bool) : prog value :=
  len <- read_compact_len ;;
  if len =? -1 then (if nullable then Ret VNull else Fail EUnexpectedNull)
  else Read len decode_str.
Definition read_legacy_bytes (nullable : bool) : prog value :=
  len <- read_int 4 true ;;
  if len =? -1 then (if nullable then Ret VNull else Fail EUnexpectedNull)
  else Read len (fun b => Ret (VBytes b)).
Definition read_legacy_string (nullable : bool) : prog value :=
  len <- read_int 2 true ;;
  if len =? -1 then (if nullable then Ret VNull else Fail EUnexpectedNull)
  else Read len decode_str.

Definition read_timedelta (w : nat) : prog value :=
  n <- read_int w true ;; us <- lift (td_of_millis n) ;; Ret (VDur us).
Definition read_datetime (nullable : bool) : prog value :=
  ms <- read_int 8 true ;;
  if nullable && (ms =? -1) then Ret VNull
  else us <- lift (tz_aware_from_millis ms) ;; Ret (VTime us).

Definition dec_prim (p : pcodec) : prog value :=
  match p with
  | PInt w s => z <- read_int w s ;; Ret (VInt z)
  | PF64 => read_float64
  | PBool => read_boolean
  | PErrorCode => read_error_code
  | PStr true n => read_compact_string n
  | PStr false n => read_legacy_string n
  | PBytes true n => read_compact_bytes n
  | PBytes false n => read_legacy_bytes n
  | PUuid => read_uuid
  | PTd32 => read_timedelta 4
  | PTd64 => read_timedelta 8
  | PDt n => read_datetime n
  end.

(* ---- writers ---- *)
Definition uvarint_hi : Z := 2 ^ 35 - 1.

(* write_unsigned_varint(buffer, uvarint(n)): the uvarint(...) call raises TypeError outside
   0 .. 2^35-1 *)
Definition write_len_compact (n : Z) : res (list Z) :=
  if (0 <=? n) && (n <=? uvarint_hi) then Ok (uvarint_bytes n) else Err EType.

Definition write_compact_blob (b : list Z) : res (list Z) :=
  rbind (write_len_compact (zlen b + 1)) (fun p => Ok (p ++ b)).
Definition write_legacy_blob (w : nat) (b : list Z) : res (list Z) :=
  if in_int_range w true (zlen b) then rbind (write_int w true (zlen b)) (fun p => Ok (p ++ b))
  else Err EOutOfBound.

Definition blob_of (v : value) : option (list Z) :=
  match v with VStr b | VBytes b => Some b | _ => None end.

Definition write_string_like (compact nullable : bool) (w : nat) (v : value) : res (list Z) :=
  match v with
  | VNull => if nullable then (if compact then Ok [0] else write_int w true (-1))
             else Err EType
  | _ => match blob_of v with
         | Some b => if compact then write_compact_blob b else write_legacy_blob w b
         | None => Err EType
         end
  end.

Definition write_timedelta (w : nat) (v : value) : res (list Z) :=
  match v with
  | VDur us => write_int w true (round_half_even_1000 us)
  | _ => Err EType
  end.

Definition write_datetime (nullable : bool) (v : value) : res (list Z) :=
  match v with
  | VNull => if nullable then write_int 8 true (-1) else Err EType
  | VTime us => write_int 8 true (round_half_even_1000 us)
  | _ => Err EType
  end.

Definition enc_prim (p : pcodec) (v : value) : res (list Z) :=
  match p, v with
  | PInt w s, VInt z => write_int w s z
  | PF64, VF64 bits => write_int 8 false bits
  | PBool, VBool b => Ok [if b then 1 else 0]
  | PErrorCode, VInt z => write_int 2 true z
  | PStr c n, VNull | PStr c n, VStr _ => write_string_like c n 2 v
  | PBytes c n, VNull | PBytes c n, VBytes _ => write_string_like c n 4 v
  | PUuid, VNull => Ok (repeat 0 16)
  | PUuid, VUuid b => Ok b
  | PTd32, VDur _ => write_timedelta 4 v
  | PTd64, VDur _ => write_timedelta 8 v
  | PDt n, VNull | PDt n, VTime _ => write_datetime n v
  | _, _ => Err EType
  end.

(* ---- "well-typed" primitive values: what an instance may hold for such a field ---- *)
Definition typed_prim (p : pcodec) (v : value) : bool :=
  match p, v with
  | PInt w s, VInt z => in_int_range w s z
  | PF64, VF64 bits => (0 <=? bits) && (bits <? 2 ^ 64)
  | PBool, VBool _ => true
  | PErrorCode, VInt z => known_error_code z && in_int_range 2 true z
  | PStr c n, VNull => n
  | PStr c n, VStr b => bytes_ok b && utf8_valid b &&
        (if c then zlen b + 1 <=? uvarint_hi else zlen b <=? 32767)
  | PBytes c n, VNull => n
  | PBytes c n, VBytes b => bytes_ok b &&
        (if c then zlen b + 1 <=? uvarint_hi else zlen b <=? 2147483647)
  | PUuid, VNull => true
  | PUuid, VUuid b => bytes_ok b && (zlen b =? 16) && negb (forallb (Z.eqb 0) b)
  | PTd32, VDur us => (us mod 1000 =? 0) && in_int_range 4 true (us / 1000)
  | PTd64, VDur us => (us mod 1000 =? 0) && (td_min_us <=? us) && (us <=? td_max_us)
  | PDt n, VNull => n
  | PDt n, VTime us => (us mod 1000 =? 0) && (0 <=? us) && (us <=? dt_max_us)
  | _, _ => false
  end.

(* the writer-side codec of a field may be the non-nullable variant of the reader-side codec
   (tagged fields are written with the non-nullable writer) *)
Definition psub (w r : pcodec) : bool :=
  pcodec_eqb w r ||
  match w, r with
  | PStr c false, PStr c' true | PBytes c false, PBytes c' true => Bool.eqb c c'
  | PDt false, PDt true => true
  | _, _ => false
  end.

(* degenerate zero-width integers are excluded wherever a plan is well-formed *)
Definition pcodec_ok (p : pcodec) : bool :=
  match p with PInt w _ => Nat.ltb 0 w | _ => true end.

(* outcomes a decoder may report (C10): the library's decode errors, ValueError, OverflowError *)
Definition permitted (e : err) : bool :=
  match e with
  | EUnderflow | EUnexpectedNull | EOutOfBound | EValue | EOverflow => true
  | _ => false
  end.
End WithErrorCodes.
