(* The entity encoder: kio.serial._serialize.entity_writer interpreted over a resolved plan.
   Definitions only. *)
From Coq Require Import ZArith List Bool String.
From KioV Require Import Base.Res Base.Prog Prim.Bytes Prim.Varint Codec.Value Codec.PrimCodec.
Import ListNotations.
Open Scope Z_scope.

(* sorted(tagged_field_writers.keys()): insertion sort on the tag *)
Fixpoint insert_by_tag {A} (x : Z * A) (l : list (Z * A)) : list (Z * A) :=
  match l with
  | [] => [x]
  | y :: tl => if fst x <=? fst y then x :: y :: tl else y :: insert_by_tag x tl
  end.
Fixpoint sort_by_tag {A} (l : list (Z * A)) : list (Z * A) :=
  match l with [] => [] | x :: tl => insert_by_tag x (sort_by_tag tl) end.

Fixpoint rconcat (l : list (res (list Z))) : res (list Z) :=
  match l with
  | [] => Ok []
  | x :: tl => rbind x (fun a => rbind (rconcat tl) (fun b => Ok (a ++ b)))
  end.

Section Enc.
  Variable enc_class : nat -> value -> res (list Z).

  Fixpoint enc_codec (c : codec) (v : value) : res (list Z) :=
    match c with
    | CPrim p => enc_prim p v
    | CEnt i nullable =>
        if nullable then
          match v with
          | VNull => Ok [255]                                   (* int8 -1 *)
          | _ => rbind (enc_class i v) (fun b => Ok (1 :: b))
          end
        else enc_class i v
    | CArr compact item =>
        match v with
        | VNull => if compact then Ok [0] else write_int 4 true (-1)
        | VArr l =>
            rbind (if compact then write_len_compact (zlen l + 1)
                   else if in_int_range 4 true (zlen l) then write_int 4 true (zlen l)
                        else Err EOutOfBound) (fun p =>
            rbind (rconcat (map (enc_codec item) l)) (fun b => Ok (p ++ b)))
        | _ => Err EType
        end
    end.

  (* regular fields, in declaration order *)
  Fixpoint enc_regular (fs : list fplan) (vs : list value) : res (list Z) :=
    match fs, vs with
    | [], [] => Ok []
    | f :: ftl, v :: vtl =>
        match fp_tag f with
        | Some _ => enc_regular ftl vtl
        | None => rbind (enc_codec (fp_codec f) v) (fun a =>
                  rbind (enc_regular ftl vtl) (fun b => Ok (a ++ b)))
        end
    | _, _ => Err EType
    end.

  (* the tagged fields whose value differs from their default, in declaration order *)
  Fixpoint tagged_present (fs : list fplan) (vs : list value) : list (Z * (codec * value)) :=
    match fs, vs with
    | f :: ftl, v :: vtl =>
        match fp_tag f with
        | Some t => if val_eqb v (fp_default f) then tagged_present ftl vtl
                    else (t, (fp_codec f, v)) :: tagged_present ftl vtl
        | None => tagged_present ftl vtl
        end
    | _, _ => []
    end.

  (* write_tagged_field: tag, size, payload *)
  Definition enc_tag_entry (e : Z * (codec * value)) : res (list Z) :=
    rbind (enc_codec (fst (snd e)) (snd (snd e))) (fun payload =>
    rbind (write_len_compact (zlen payload)) (fun sz =>
    Ok (uvarint_bytes (fst e) ++ sz ++ payload))).

  Definition enc_entity (c : cplan) (v : value) : res (list Z) :=
    if negb (cp_flexible c) && has_tagged (cp_fields c) then Err EValue  (* raised by entity_writer *)
    else
    match v with
    | VEnt vs =>
        rbind (enc_regular (cp_fields c) vs) (fun r =>
        if cp_flexible c then
          let entries := sort_by_tag (tagged_present (cp_fields c) vs) in
          rbind (rconcat (map enc_tag_entry entries)) (fun t =>
          rbind (write_len_compact (zlen entries)) (fun n => Ok (r ++ n ++ t)))
        else Ok r)
    | _ => Err EType
    end.
End Enc.

Fixpoint enc_class (E : penv) (rank : nat) (i : nat) (v : value) : res (list Z) :=
  match rank with
  | O => Err ERecursion
  | S r => match nth_error E i with
           | None => Err EType
           | Some c => enc_entity (enc_class E r) c v
           end
  end.

Definition encode (E : penv) (i : nat) (v : value) : res (list Z) := enc_class E (S i) i v.
