(* Consequences of the round-trip and decoder-soundness theorems, stated per property. *)
From Coq Require Import ZArith List Bool Lia.
From KioV Require Import Base.Res Base.Prog Base.ProgProofs Codec.Value Codec.PrimCodec Codec.Reader
  Codec.Writer Schema.Introspect Codec.Typed Codec.PrimCodecProofs Codec.RoundtripProofs Codec.DecodeProofs.
Import ListNotations.
Open Scope Z_scope.

Lemma nth_error_lt {A} (l : list A) i x : nth_error l i = Some x -> (i < length l)%nat.
Proof. intros H. apply nth_error_Some. rewrite H. discriminate. Qed.

Lemma typed_in_env E ec i v : typed E ec i v = true -> (i < length E)%nat.
Proof.
  unfold typed. cbn [typed_class]. destruct (nth_error E i) eqn:Hn; [|discriminate].
  intros _. eapply nth_error_lt; eauto.
Qed.

(* C06: every strict prefix of an encoding is reported as buffer underflow *)
Theorem truncated_is_underflow : forall E ec, wf_env E = true -> forall i v bs k,
  typed E ec i v = true -> encode (map writer_plan E) i v = Ok bs -> (k < length bs)%nat ->
  decode (map reader_plan E) ec i (firstn k bs) = Err EUnderflow.
Proof.
  intros E ec Hwf i v bs k Ht He Hk.
  eapply (decode_prefix_underflow E ec Hwf i bs [] v (S (length (bs ++ [])))).
  - eapply typed_in_env; eauto.
  - lia.
  - apply codec_roundtrip; auto.
  - exact Hk.
Qed.

(* C07: messages written back to back decode one after another *)
Record msg := { m_cls : nat; m_val : value; m_bytes : list Z }.
Definition msg_ok (E : list cplan2) (ec : list Z) (m : msg) : Prop :=
  typed E ec (m_cls m) (m_val m) = true /\ encode (map writer_plan E) (m_cls m) (m_val m) = Ok (m_bytes m).

Fixpoint decode_all (R : penv) (ec : list Z) (classes : list nat) (bs : list Z) : res (list value * list Z) :=
  match classes with
  | [] => Ok ([], bs)
  | i :: tl => match decode R ec i bs with
               | Err e => Err e
               | Ok (v, rest) => match decode_all R ec tl rest with
                                 | Err e => Err e
                                 | Ok (vs, rest') => Ok (v :: vs, rest')
                                 end
               end
  end.

Theorem sequence_decodes : forall E ec, wf_env E = true -> forall msgs tl,
  Forall (msg_ok E ec) msgs ->
  decode_all (map reader_plan E) ec (map m_cls msgs) (concat (map m_bytes msgs) ++ tl)
  = Ok (map m_val msgs, tl).
Proof.
  intros E ec Hwf msgs tl H. induction H as [|m ms [Ht He] _ IH]; cbn [map concat decode_all app].
  - reflexivity.
  - rewrite <- app_assoc. rewrite (decode_encode E ec Hwf _ _ _ _ Ht He). rewrite IH. reflexivity.
Qed.

(* writes to any append-only sink accumulate to the concatenation, whatever the sink is *)
Section Sink.
  Variable S : Type.
  Variable write : S -> list Z -> S.
  Variable contents : S -> list Z.
  Hypothesis write_appends : forall s b, contents (write s b) = contents s ++ b.
  Theorem any_append_sink : forall chunks s0,
    contents (fold_left write chunks s0) = contents s0 ++ concat chunks.
  Proof.
    induction chunks as [|c cs IH]; intros s0; cbn [fold_left concat].
    - rewrite app_nil_r. reflexivity.
    - rewrite IH, write_appends, <- app_assoc. reflexivity.
  Qed.
End Sink.

(* C05/C10: whatever the decoder returns can be encoded again (up to the 2^35-byte size limits
   of tagged sections, see encode_total_iff) and decoding that encoding gives the same value *)
Theorem decoded_is_reencodable : forall E ec, wf_env E = true -> forall i bs v rest,
  (i < length E)%nat -> bytes_ok bs = true ->
  decode (map reader_plan E) ec i bs = Ok (v, rest) ->
  sizes_ok (map writer_plan E) i v = true ->
  exists bs', encode (map writer_plan E) i v = Ok bs' /\
              forall tl, decode (map reader_plan E) ec i (bs' ++ tl) = Ok (v, tl).
Proof.
  intros E ec Hwf i bs v rest Hi Hb Hd Hs. unfold decode in Hd.
  assert (Ht: typed E ec i v = true).
  { eapply decode_typed; eauto. }
  destruct (encode_total E ec Hwf i v Ht Hs) as [bs' He].
  exists bs'. split; [exact He|]. intros tl. apply decode_encode; auto.
Qed.

(* C05: decode-then-encode is idempotent on any accepted input *)
Theorem reencode_stable : forall E ec, wf_env E = true -> forall i bs v rest bs1,
  (i < length E)%nat -> bytes_ok bs = true ->
  decode (map reader_plan E) ec i bs = Ok (v, rest) ->
  encode (map writer_plan E) i v = Ok bs1 ->
  decode (map reader_plan E) ec i bs1 = Ok (v, []) /\
  (forall v2 r2 bs2, decode (map reader_plan E) ec i bs1 = Ok (v2, r2) ->
                     encode (map writer_plan E) i v2 = Ok bs2 -> bs2 = bs1).
Proof.
  intros E ec Hwf i bs v rest bs1 Hi Hb Hd He. unfold decode in Hd.
  assert (Ht: typed E ec i v = true) by (eapply decode_typed; eauto).
  pose proof (decode_encode E ec Hwf i v bs1 [] Ht He) as H1. rewrite app_nil_r in H1.
  split; [exact H1|]. intros v2 r2 bs2 H2 H3. rewrite H1 in H2. congruence.
Qed.

(* C10: outcomes of decoding arbitrary bytes *)
Theorem decode_outcomes : forall E ec, wf_env E = true -> forall i bs,
  (i < length E)%nat -> bytes_ok bs = true ->
  match decode (map reader_plan E) ec i bs with
  | Ok (v, rest) => typed E ec i v = true /\ exists c, bs = c ++ rest
  | Err e => permitted e = true
  end.
Proof.
  intros E ec Hwf i bs Hi Hb. unfold decode.
  destruct (run (decoder (map reader_plan E) ec i (S (length bs))) bs) as [[v rest]|e] eqn:Hd.
  - split; [eapply decode_typed; eauto|]. eapply run_suffix; eauto.
  - eapply decode_errors_permitted; eauto.
Qed.
