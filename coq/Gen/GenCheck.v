(* Executable comparison of the generator model with the classes the real generator emitted
   (C16 correspondence).  Definitions only. *)
From Coq Require Import ZArith List Bool String.
From KioV Require Import Base.Res Schema.Strings Gen.Gen.
Import ListNotations.
Open Scope string_scope.

Definition opt_eqb {A} (eqb : A -> A -> bool) (a b : option A) : bool :=
  match a, b with None, None => true | Some x, Some y => eqb x y | _, _ => false end.

Definition gann_eqb (a b : gann) : bool :=
  match a, b with
  | GPrim q o, GPrim q' o' | GEnt q o, GEnt q' o' | GEntArr q o, GEntArr q' o' => (q =? q') && Bool.eqb o o'
  | GPrimArr q o, GPrimArr q' o' => (q =? q') && Bool.eqb o o'
  | _, _ => false
  end.
Definition gdefault_eqb (a b : gdefault) : bool :=
  match a, b with
  | GDNone, GDNone | GDEmptyTuple, GDEmptyTuple => true
  | GDInt x, GDInt y | GDErrorCode x, GDErrorCode y | GDMillis x, GDMillis y => Z.eqb x y
  | GDStr x, GDStr y | GDFloatText x, GDFloatText y | GDEntity x, GDEntity y => x =? y
  | GDBool x, GDBool y => Bool.eqb x y
  | _, _ => false
  end.
Definition gfield_eqb (a b : gfield) : bool :=
  (gf_name a =? gf_name b) && gann_eqb (gf_ann a) (gf_ann b) && opt_eqb String.eqb (gf_kafka a) (gf_kafka b)
  && opt_eqb Z.eqb (gf_tag a) (gf_tag b) && opt_eqb gdefault_eqb (gf_default a) (gf_default b).
Fixpoint list_eqb {A} (eqb : A -> A -> bool) (a b : list A) : bool :=
  match a, b with
  | [], [] => true
  | x :: a', y :: b' => eqb x y && list_eqb eqb a' b'
  | _, _ => false
  end.
Definition gclass_eqb (a b : gclass) : bool :=
  (gc_name a =? gc_name b) && (gc_type a =? gc_type b) && Z.eqb (gc_version a) (gc_version b)
  && Bool.eqb (gc_flexible a) (gc_flexible b) && opt_eqb Z.eqb (gc_api_key a) (gc_api_key b)
  && opt_eqb String.eqb (gc_header a) (gc_header b) && list_eqb gfield_eqb (gc_fields a) (gc_fields b).

(* the classes of a module, independent of the order of emission *)
Definition classes_match (model impl : list gclass) : bool :=
  Nat.eqb (List.length model) (List.length impl)
  && forallb (fun m => existsb (gclass_eqb m) impl) model
  && str_nodup (map gc_name model).

Record gcase := { g_def : defn; g_version : Z; g_package : string; g_expect : option (list gclass) }.
(* None = the real generator failed on this definition *)
Definition check_gcase (builtins : list string) (k : gcase) : bool :=
  match gen_module builtins (g_def k) (g_version k), g_expect k with
  | Ok cs, Some es => classes_match cs es
                      && match package_of builtins (g_def k) with Ok p => p =? g_package k | Err _ => false end
  | Err _, None => true
  | _, _ => false
  end.

Fixpoint gfailing_from (builtins : list string) (i : nat) (l : list gcase) : list nat :=
  match l with
  | [] => []
  | x :: tl => if check_gcase builtins x then gfailing_from builtins (S i) tl else i :: gfailing_from builtins (S i) tl
  end.

(* the wire side: the plans read off the generated module are well-formed (so the codec theorems
   apply to what the generator emits), and the model encoder over those plans reproduces the bytes
   kio produced for instances of the generated classes *)
From KioV Require Import Codec.Value Codec.Writer Schema.Introspect Codec.Typed Gen.GenPlan Codec.Check.
Record wirecase := { wc_def : defn; wc_version : Z; wc_class : string; wc_val : value; wc_bytes : res (list Z) }.
(* 0 = agreement; 1 = bytes differ; 2 = kio encoded something for which the definition gives no
   plan; 3 = agreement, but the module is outside wf_env (the codec theorems do not cover it) *)
Definition wirecase_code (builtins : list string) (k : wirecase) : Z :=
  match gen_module builtins (wc_def k) (wc_version k) with
  | Err _ => 2%Z
  | Ok m =>
      match plans_of_module m, index_of (wc_class k) (map gc_name m) 0 with
      | Some ps, Some i =>
          match encode (map writer_plan ps) i (wc_val k), wc_bytes k with
          | Ok a, Ok b => if zlist_eqb a b then (if wf_env ps then 0 else 3)%Z else 1%Z
          | Err _, Err _ => 3%Z              (* both refuse: outside the supported subset *)
          | _, _ => 1%Z
          end
      | _, _ => match wc_bytes k with Err _ => 3%Z | Ok _ => 2%Z end
      end
  end.
Definition wirecase_codes (builtins : list string) (l : list wirecase) : list Z := map (wirecase_code builtins) l.
