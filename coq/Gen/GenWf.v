(* Two boolean predicates under which the plans read off a generated module are well formed
   (wf_env), so that every codec theorem applies; Gen/GenWfProofs.v has the proofs.
   - module_ok (Stage A): syntactic, on the GENERATED classes and their fields only (never on
     the codec plans): module_ok m = true -> wf_env (plans of m) = true.
   - defn_ok (Stage B): on the DEFINITION and a version, field by field over every structure
     reachable at that version: defn_ok builtins d v = true -> def_wf builtins d v = true.
   Definitions only. *)
From Coq Require Import ZArith List Bool String.
From KioV Require Import Base.Res Codec.Value Codec.PrimCodec Schema.Introspect Schema.Strings
  Codec.Typed Gen.Gen Gen.GenPlan.
Import ListNotations.
Open Scope string_scope.

(* the Kafka type names for which kio has a reader/writer: exactly the names pcodec_of knows,
   and exactly the generator's `primitives` *)
Definition known_kafka (kt : string) : bool := str_mem kt primitives.

(* the types whose reader accepts null when the annotation is optional: the nullable and the
   non-nullable codec differ exactly for these *)
Definition nullable_kafka (kt : string) : bool :=
  str_mem kt ["string"; "bytes"; "records"; "datetime_i64"].

Definition is_tagged (g : gfield) : bool := match gf_tag g with Some _ => true | None => false end.

(* a tag is only allowed on a flexible class and lies in 0 <= t < 2^31 *)
Definition tag_ok (flexible : bool) (tag : option Z) : bool :=
  match tag with
  | None => true
  | Some t => flexible && (0 <=? t)%Z && (t <? 2 ^ 31)%Z
  end.

Definition gtags (fs : list gfield) : list Z :=
  flat_map (fun g => match gf_tag g with Some t => [t] | None => [] end) fs.

(* the default instance of the class called `name` is derivable (every field of it has an
   explicit default, or is a non-optional primitive, or a non-optional entity whose own class
   default is derivable): GenPlan.class_default on the generated classes *)
Definition class_default_ok (m : list gclass) (name : string) : bool :=
  match class_default m (S (List.length m)) name with Some _ => true | None => false end.

(* a tagged field needs a default: explicit, or implicit (there is no implicit default for
   `records`: kio raises NotImplementedError) *)
Definition default_ok (m : list gclass) (g : gfield) : bool :=
  match gf_default g with
  | Some (GDEntity n) => class_default_ok m n
  | Some _ => true
  | None => match gf_ann g, gf_kafka g with
            | GPrim _ false, Some kt => negb (kt =? "records")
            | GEnt n false, _ => class_default_ok m n
            | _, _ => false
            end
  end.

Definition default_is_none (g : gfield) : bool :=
  match gf_default g with Some GDNone => true | _ => false end.

(* the reference `n` of a field of the class at position k names a class that occurs earlier
   in the module, and that class is not called "<no plan>" *)
Definition ref_ok (m : list gclass) (k : nat) (n : string) : bool :=
  negb (n =? "<no plan>") && str_mem n (firstn k (map gc_name m)).

(* RequestHeader.client_id is always read and written as a nullable legacy string *)
Definition is_client_id (is_rh : bool) (g : gfield) : bool := is_rh && (gf_name g =? "client_id").

(* the field always contributes at least one byte to the encoding of its class *)
Definition gfield_nonempty (is_rh : bool) (g : gfield) : bool :=
  match gf_tag g with
  | Some _ => false
  | None => is_client_id is_rh g || match gf_ann g with GEnt _ opt => opt | _ => true end
  end.
Definition gclass_nonempty (c : gclass) : bool :=
  gc_flexible c || existsb (gfield_nonempty (gc_name c =? "RequestHeader")) (gc_fields c).

(* arrays of (non-nullable) entities: every item must occupy at least one byte *)
Definition arr_item_ok (m : list gclass) (n : string) : bool :=
  match find (fun c => gc_name c =? n) m with Some c => gclass_nonempty c | None => false end.

(* one field of the class at position k of module m *)
Definition field_ok (m : list gclass) (k : nat) (flexible is_rh : bool) (g : gfield) : bool :=
  tag_ok flexible (gf_tag g) && (negb (is_tagged g) || default_ok m g) &&
  (if is_client_id is_rh g then true else
   match gf_ann g, gf_kafka g with
   | GPrim _ opt, Some kt =>
       known_kafka kt &&
       (negb (is_tagged g) ||
        (negb (kt =? "float64") && (negb (opt && nullable_kafka kt) || default_is_none g)))
   | GPrimArr _ iopt, Some kt =>
       known_kafka kt &&
       (negb (is_tagged g) || (negb (kt =? "float64") && negb (iopt && nullable_kafka kt)))
   | GEnt n opt, None => ref_ok m k n && negb (is_tagged g && opt)
   | GEntArr n _, None => ref_ok m k n && arr_item_ok m n
   | _, _ => false
   end).

Definition class_ok (m : list gclass) (k : nat) (c : gclass) : bool :=
  forallb (field_ok m k (gc_flexible c) (gc_name c =? "RequestHeader")) (gc_fields c)
  && nodup_z (gtags (gc_fields c)).

Fixpoint classes_ok (m : list gclass) (k : nat) (l : list gclass) : bool :=
  match l with [] => true | c :: tl => class_ok m k c && classes_ok m (S k) tl end.

Definition module_ok (m : list gclass) : bool := classes_ok m 0 m.

(* ==================================================================================== *)
(* Stage B: a predicate on the DEFINITION (and a version), stated on the definition's own  *)
(* fields.  Every structure reachable at version v (the top-level fields, inline structs   *)
(* and common structs, restricted to the fields valid at v) is checked field by field.     *)
(* ==================================================================================== *)
From KioV Require Import Gen.GenProofs.    (* nested_of: the structure a field refers to *)

Section DefnOk.
  Variable d : defn.
  Variable v : Z.
  Variable flex : bool.                 (* v lies in the definition's flexibleVersions *)
  Variable needed : list string.        (* structures whose default instance is needed *)
  Variable arr_items : list string.     (* structures that are the item type of an array field *)
  Local Notation commons := (map ds_name (d_common d)).

  (* the normalised fields of a structure that are valid at v, in order *)
  Definition valid_fields (fields : list dfield) : list nfield :=
    flat_map (fun f => match normalise commons f with
                       | Ok n => if vmatches (nf_versions n) v then [n] else []
                       | Err _ => []
                       end) fields.

  Definition ntagged (n : nfield) : bool := match get_tag n v with Some _ => true | None => false end.
  Definition ntags (ns : list nfield) : list Z :=
    flat_map (fun n => match get_tag n v with Some t => [t] | None => [] end) ns.

  (* the annotation of a primitive field is `T | None` *)
  Definition prim_optional (n : nfield) (p : string) : bool :=
    prim_nullable n p v || ((p =? "uuid") && match nf_entity_type n with None => true | Some _ => false end).

  (* a struct field whose generated default is None *)
  Definition ent_default_none (n : nfield) : bool :=
    match nf_kind n with
    | KEnt _ sf => match nf_default n with
                   | Some _ => true
                   | None => ntagged n && negb (forallb (member_has_default commons) sf) && nf_ignorable n
                   end
    | KCommon _ => ntagged n && nf_ignorable n
    | _ => false
    end.

  (* the struct a tagged struct field needs the default instance of *)
  Definition needs_default_of (n : nfield) : option string :=
    match nf_kind n with
    | KEnt s _ | KCommon s => if ntagged n && negb (ent_default_none n) then Some s else None
    | _ => None
    end.

  (* one field valid at v *)
  Definition nfield_ok (n : nfield) : bool :=
    tag_ok flex (get_tag n v) &&
    match nf_kind n with
    | KPrim p =>
        known_kafka p &&
        (negb (ntagged n) ||
         (negb (p =? "float64")
          (* a default: explicit, None/zero for an ignorable field, implicit for a non-nullable one
             (there is no implicit default for records) *)
          && match nf_default n with
             | Some _ => true
             | None => nf_ignorable n || (negb (prim_optional n p) && negb (p =? "records"))
             end
          (* a nullable field of a type with a null encoding: its default is null *)
          && (negb (prim_optional n p && nullable_kafka p) ||
              match nf_default n with
              | Some dd => (dd =? "null") || ((p =? "datetime_i64") && (dd =? "-1"))
              | None => true
              end)))
    | KPrimArr p => known_kafka p && (negb (ntagged n) || negb (p =? "float64"))
    | KEntArr s _ | KCommonArr s => negb (s =? "<no plan>") && str_mem s arr_items
    | KEnt s _ => negb (s =? "<no plan>") && negb (ntagged n && nullable_for n v)
    | KCommon s => negb (s =? "<no plan>")
    end
    && match needs_default_of n with Some s => str_mem s needed | None => true end.

  (* the field always occupies at least one byte *)
  Definition nfield_nonempty (n : nfield) : bool :=
    negb (ntagged n) &&
    match nf_kind n with KEnt _ _ => nullable_for n v | KCommon _ => false | _ => true end.

  (* the field has a derivable default when an instance of its structure is built by default:
     explicit, implicit (non-nullable primitive other than records), or the default instance of a non-nullable
     struct that is itself needed *)
  Definition nfield_default_ok (n : nfield) : bool :=
    match nf_kind n with
    | KPrim p => match nf_default n with
                 | Some _ => true
                 | None => (ntagged n && nf_ignorable n)
                           || (negb (prim_optional n p) && negb (p =? "records"))
                 end
    | KPrimArr _ => true
    | KEntArr _ _ | KCommonArr _ => ntagged n
    | KEnt s _ => ent_default_none n || (str_mem s needed && negb (nullable_for n v))
    | KCommon s => ent_default_none n || str_mem s needed
    end.

  (* one structure: its fields, tags pairwise distinct; the item structure of an array in a
     non-flexible version has a field that always occupies a byte; if its default instance is
     needed every field has a derivable default *)
  Definition struct_ok (name : string) (fields : list dfield) : bool :=
    let ns := valid_fields fields in
    forallb nfield_ok ns && nodup_z (ntags ns)
    && (flex || negb (str_mem name arr_items) || existsb nfield_nonempty ns)
    && (negb (str_mem name needed) || forallb nfield_default_ok ns).

  (* every structure reachable at v, with the generator's own recursion (and fuel) *)
  Fixpoint all_structs_ok (fuel : nat) (name : string) (fields : list dfield) : bool :=
    match fuel with
    | O => true
    | S fuel' =>
        struct_ok name fields &&
        forallb (fun n => match nested_of d (nf_kind n) with
                          | Ok (Some (s, sf)) => all_structs_ok fuel' s sf
                          | _ => true
                          end) (valid_fields fields)
    end.
End DefnOk.

(* The two lists.  ANY lists make the theorem true (a field that needs a default instance, or an
   array, checks that its structure is in the list; a structure in the list is checked); these
   functions collect exactly what is needed. *)
Fixpoint arr_item_names (d : defn) (v : Z) (fuel : nat) (fields : list dfield) : list string :=
  match fuel with
  | O => []
  | S fuel' =>
      flat_map (fun n =>
        (match nf_kind n with KEntArr s _ | KCommonArr s => [s] | _ => [] end ++
         match nested_of d (nf_kind n) with
         | Ok (Some (_, sf)) => arr_item_names d v fuel' sf
         | _ => []
         end)%list) (valid_fields d v fields)
  end.

(* one pass: the structures tagged struct fields need, and those that structures already known
   to be needed (cur) need in turn *)
Fixpoint needed_pass (d : defn) (v : Z) (cur : list string) (fuel : nat) (name : string)
         (fields : list dfield) : list string :=
  match fuel with
  | O => []
  | S fuel' =>
      flat_map (fun n =>
        (match needs_default_of d v n with Some s => [s] | None => [] end ++
         (if str_mem name cur then
            match nf_kind n with
            | KEnt s _ | KCommon s => if ent_default_none d v n then [] else [s]
            | _ => []
            end
          else []) ++
         match nested_of d (nf_kind n) with
         | Ok (Some (s, sf)) => needed_pass d v cur fuel' s sf
         | _ => []
         end)%list) (valid_fields d v fields)
  end.

Fixpoint needed_iter (d : defn) (v : Z) (k : nat) (cur : list string) : list string :=
  match k with
  | O => cur
  | S k' => needed_iter d v k' (needed_pass d v cur (gen_fuel d + 2) (d_name d) (d_fields d))
  end.
Definition needed_names (d : defn) (v : Z) : list string := needed_iter d v (gen_fuel d + 2) [].

(* the generator does not raise (def_wf is false otherwise), flexibleVersions parses, and every
   reachable structure is ok *)
Definition defn_ok (builtins : list string) (d : defn) (v : Z) : bool :=
  match parse_vrange (d_flexible d) with
  | Ok fr =>
      is_ok (gen_module builtins d v) &&
      all_structs_ok d v (vmatches fr v) (needed_names d v)
                     (arr_item_names d v (gen_fuel d + 2) (d_fields d))
                     (gen_fuel d + 2) (d_name d) (d_fields d)
  | Err _ => false
  end.
