(* The code generator (codegen/parser.py, versions.py, case.py, header_schema.py,
   generate_schema.py) at the level of what the emitted classes MEAN: for a message definition
   and a version, the list of classes with their fields, annotations, metadata, defaults and
   class variables.  Definitions only. *)
From Coq Require Import ZArith List Bool String Ascii.
From KioV Require Import Base.Res Schema.Strings.
Import ListNotations.
Open Scope string_scope.

(* ---------------- definitions as written in the JSON files ---------------- *)
Inductive dfield :=
| DF (name type_ : string) (versions nullable tagged : option string) (tag : option Z)
     (ignorable : bool) (default : option string) (entity_type : option string)
     (fields : option (list dfield)).

Record dstruct := { ds_name : string; ds_versions : string; ds_fields : list dfield }.
Record defn := {
  d_name : string; d_kind : string;              (* "request" | "response" | "header" | "data" *)
  d_api_key : option Z; d_valid : string; d_flexible : string;
  d_fields : list dfield; d_common : list dstruct
}.

Definition df_name (f : dfield) := match f with DF n _ _ _ _ _ _ _ _ _ => n end.
Definition df_type (f : dfield) := match f with DF _ t _ _ _ _ _ _ _ _ => t end.
Definition df_versions (f : dfield) := match f with DF _ _ v _ _ _ _ _ _ _ => v end.
Definition df_nullable (f : dfield) := match f with DF _ _ _ n _ _ _ _ _ _ => n end.
Definition df_tagged (f : dfield) := match f with DF _ _ _ _ t _ _ _ _ _ => t end.
Definition df_tag (f : dfield) := match f with DF _ _ _ _ _ t _ _ _ _ => t end.
Definition df_ignorable (f : dfield) := match f with DF _ _ _ _ _ _ i _ _ _ => i end.
Definition df_default (f : dfield) := match f with DF _ _ _ _ _ _ _ d _ _ => d end.
Definition df_entity_type (f : dfield) := match f with DF _ _ _ _ _ _ _ _ e _ => e end.
Definition df_fields (f : dfield) := match f with DF _ _ _ _ _ _ _ _ _ fs => fs end.

(* ---------------- versions.py ---------------- *)
Inductive vrange := VR (lo : Z) (hi : option Z) | VNone.    (* hi = None: open ended "N+" *)

Definition parse_nat_str (s : string) : option Z :=
  match s with EmptyString => None | _ => parse_digits s 0 end.

Definition drop_last (s : string) : string := substring 0 (String.length s - 1) s.
Definition last_char (s : string) : option ascii := get (String.length s - 1) s.

Definition parse_vrange (s : string) : res vrange :=
  if s =? "none" then Ok VNone
  else match last_char s with
       | Some "+"%char =>
           match parse_nat_str (drop_last s) with Some n => Ok (VR n None) | None => Err EValue end
       | _ =>
           match split "-" s with
           | [a] => match parse_nat_str a with Some n => Ok (VR n (Some n)) | None => Err EValue end
           | a :: rest =>
               (* split("-", 1): everything after the first dash is the upper bound *)
               match parse_nat_str a, parse_nat_str (String.concat "-" rest) with
               | Some lo, Some hi => Ok (VR lo (Some hi))
               | _, _ => Err EValue
               end
           | [] => Err EValue
           end
       end.

Definition vmatches (r : vrange) (v : Z) : bool :=
  match r with
  | VNone => false
  | VR lo None => (lo <=? v)%Z
  | VR lo (Some hi) => ((lo <=? v) && (v <=? hi))%Z
  end.

(* validVersions.iterator(): needs a bounded range *)
Definition vlist (r : vrange) : res (list Z) :=
  match r with
  | VR lo (Some hi) => Ok (map (fun k => (lo + Z.of_nat k)%Z) (seq 0 (Z.to_nat (hi - lo + 1))))
  | _ => Err EAssert
  end.

(* ---------------- case.py ---------------- *)
Definition is_upper (c : ascii) : bool := let n := nat_of_ascii c in (65 <=? n)%nat && (n <=? 90)%nat.
Definition is_lower (c : ascii) : bool := let n := nat_of_ascii c in (97 <=? n)%nat && (n <=? 122)%nat.
Definition is_digit (c : ascii) : bool := let n := nat_of_ascii c in (48 <=? n)%nat && (n <=? 57)%nat.
Definition lower_char (c : ascii) : ascii := if is_upper c then ascii_of_nat (nat_of_ascii c + 32) else c.
Definition upper_char (c : ascii) : ascii := if is_lower c then ascii_of_nat (nat_of_ascii c - 32) else c.
Fixpoint lower_str (s : string) : string :=
  match s with EmptyString => EmptyString | String c tl => String (lower_char c) (lower_str tl) end.

Definition str1 (c : ascii) : string := String c EmptyString.

Fixpoint snake_aux (prev : ascii) (rest : string) (cur : string) (groups : list string) : list string :=
  match rest with
  | EmptyString => List.app groups [cur]              (* not reached from to_snake_case *)
  | String c EmptyString =>
      if is_lower prev && is_upper c then List.app groups [cur; str1 c] else List.app groups [cur ++ str1 c]
  | String c (String n _ as tl) =>
      if (is_upper prev && is_upper c && is_lower n) || (is_lower prev && is_upper c)
         || (is_digit prev && is_upper c && is_lower n)
      then snake_aux c tl (str1 c) (List.app groups [cur])
      else snake_aux c tl (cur ++ str1 c) groups
  end.

Section Case.
  Variable builtins : list string.        (* dir(builtins) of the interpreter *)

  (* to_snake_case raises IndexError on names shorter than two characters *)
  Definition to_snake_case (s : string) : res string :=
    match s with
    | EmptyString => Err EIndex
    | String _ EmptyString => Err EIndex
    | String c0 tl =>
        let formatted := lower_str (String.concat "_" (snake_aux c0 tl (str1 c0) [])) in
        Ok (if str_mem formatted builtins then formatted ++ "_" else formatted)
    end.

  Definition capitalize_first (s : string) : string :=
    match s with EmptyString => EmptyString | String c tl => String (upper_char c) tl end.

  Definition remove_suffix (suf s : string) : string :=
    let n := String.length s in let k := String.length suf in
    if (k <=? n)%nat && (substring (n - k) k s =? suf) then substring 0 (n - k) s else s.

  Definition basic_name (schema_name : string) : res string :=
    rmap (fun s => remove_suffix "_request" (remove_suffix "_response" s)) (to_snake_case schema_name).

  (* ---------------- parser.py: normalisation of a field ---------------- *)
  Definition primitives : list string :=
    ["bool"; "int8"; "int16"; "int32"; "int64"; "uint16"; "uint32"; "uint64"; "float64"; "string";
     "bytes"; "uuid"; "records"; "error_code"; "timedelta_i32"; "timedelta_i64"; "datetime_i64"].
  Definition timedelta_names : list string :=
    ["timeoutMs"; "TimeoutMs"; "ThrottleTimeMs"; "MaxWaitMs"; "SessionLifetimeMs"; "TransactionTimeoutMs";
     "MaxLifetimeMs"; "SessionTimeoutMs"; "RebalanceTimeoutMs"; "ExpiryTimePeriodMs"; "RenewPeriodMs";
     "RetentionTimeMs"; "HeartbeatIntervalMs"; "PushIntervalMs"].
  Definition datetime_names : list string :=
    ["IssueTimestampMs"; "ExpiryTimestampMs"; "MaxTimestampMs"; "TransactionStartTimeMs"; "LogAppendTimeMs"].
  Definition error_code_names : list string := ["ErrorCode"; "PartitionErrorCode"].

  Definition ends_with (suf s : string) : bool :=
    let n := String.length s in let k := String.length suf in
    (k <=? n)%nat && (substring (n - k) k s =? suf).
  Definition starts_with (pre s : string) : bool := prefix pre s.

  Inductive nkind :=
  | KPrim (p : string) | KPrimArr (p : string)
  | KEntArr (name : string) (fields : list dfield) | KEnt (name : string) (fields : list dfield)
  | KCommonArr (name : string) | KCommon (name : string).

  Record nfield := {
    nf_name : string; nf_kind : nkind; nf_versions : vrange; nf_nullable : option vrange;
    nf_tagged : option vrange; nf_tag : option Z; nf_ignorable : bool; nf_default : option string;
    nf_entity_type : option string
  }.

  Definition opt_range (o : option string) : res (option vrange) :=
    match o with None => Ok None | Some s => rmap Some (parse_vrange s) end.

  (* PrimitiveField's pre-validators: error codes, then time fields (applied to the raw type) *)
  Definition special_case (name type_ : string) : res (string * string) :=
    let type1 := if str_mem name error_code_names then "error_code" else type_ in
    if str_mem name timedelta_names then
      if type1 =? "int32" then Ok (remove_suffix "Ms" name, "timedelta_i32")
      else if type1 =? "int64" then Ok (remove_suffix "Ms" name, "timedelta_i64")
      else Err ENotImplemented
    else if str_mem name datetime_names then
      if type1 =? "int64" then Ok (remove_suffix "Ms" name, "datetime_i64") else Err ENotImplemented
    else if ends_with "Ms" name then Err ENotImplemented
    else Ok (name, type1).

  Definition normalise (commons : list string) (f : dfield) : res nfield :=
    (* versions falls back to taggedVersions *)
    rbind (match df_versions f, df_tagged f with
           | Some v, _ => parse_vrange v
           | None, Some t => parse_vrange t
           | None, None => Err EValue
           end) (fun versions =>
    rbind (opt_range (df_nullable f)) (fun nullable =>
    rbind (opt_range (df_tagged f)) (fun tagged =>
    (* tag and taggedVersions: both or neither *)
    match df_tag f, tagged with
    | Some _, None | None, Some _ => Err EValue
    | _, _ =>
      let mk name kind := Ok {| nf_name := name; nf_kind := kind; nf_versions := versions; nf_nullable := nullable;
                                nf_tagged := tagged; nf_tag := df_tag f; nf_ignorable := df_ignorable f;
                                nf_default := df_default f; nf_entity_type := df_entity_type f |} in
      let t := df_type f in
      (* the Union is tried in order: PrimitiveField, PrimitiveArrayField, EntityArrayField,
         CommonStructArrayField, EntityField, CommonStructField *)
      match special_case (df_name f) t with
      | Ok (name', t') =>
          if str_mem t' primitives then mk name' (KPrim t')
          else if starts_with "[]" t then
            let inner := substring 2 (String.length t - 2) t in
            if str_mem inner primitives then mk (df_name f) (KPrimArr inner)
            else match df_fields f with
                 | Some fs => mk (df_name f) (KEntArr inner fs)
                 | None => if str_mem inner commons then mk (df_name f) (KCommonArr inner) else Err EValue
                 end
          else match df_fields f with
               | Some fs => match df_default f with
                            | None | Some "null" => mk (df_name f) (KEnt t fs)
                            | Some _ => Err EValue
                            end
               | None => if str_mem t commons
                         then match df_default f with
                              | None | Some "null" => mk (df_name f) (KCommon t)
                              | Some _ => Err EValue
                              end
                         else Err EValue
               end
      | Err e =>
          (* the primitive pre-validator raised NotImplementedError: it propagates *)
          Err e
      end
    end))).

  Definition get_tag (f : nfield) (v : Z) : option Z :=
    match nf_tagged f with
    | Some r => if vmatches r v then nf_tag f else None
    | None => None
    end.
  Definition nullable_for (f : nfield) (v : Z) : bool :=
    match nf_nullable f with Some r => vmatches r v | None => false end.

  (* PrimitiveField.is_nullable *)
  Definition prim_nullable (f : nfield) (p : string) (v : Z) : bool :=
    if str_mem p ["int8"; "int16"; "int32"; "int64"; "uint16"; "uint32"; "uint64"; "float64"] then false
    else ((match get_tag f v with Some _ => true | None => false end) && nf_ignorable f
          && match nf_default f with None => true | Some _ => false end)
         || nullable_for f v
         || ((p =? "datetime_i64") && match nf_default f with Some "-1" => true | _ => false end).

  (* ---------------- generated classes ---------------- *)
  Inductive gann :=
  | GPrim (qualname : string) (optional : bool)       (* a primitive or custom type, maybe `| None` *)
  | GPrimArr (qualname : string) (item_optional : bool) (* tuple[T, ...] or tuple[T | None, ...] *)
  | GEnt (name : string) (optional : bool)
  | GEntArr (name : string) (optional : bool).

  Inductive gdefault :=
  | GDNone | GDInt (z : Z) | GDStr (s : string) | GDBool (b : bool) | GDFloatText (s : string)
  | GDErrorCode (z : Z) | GDMillis (ms : Z) | GDEmptyTuple | GDEntity (name : string).

  Record gfield := { gf_name : string; gf_ann : gann; gf_kafka : option string; gf_tag : option Z;
                     gf_default : option gdefault }.
  Record gclass := { gc_name : string; gc_type : string; gc_version : Z; gc_flexible : bool;
                     gc_api_key : option Z; gc_header : option string; gc_fields : list gfield }.

  Definition hint_of (p : string) : string :=
    if p =? "int8" then "kio.static.primitive.i8" else if p =? "int16" then "kio.static.primitive.i16"
    else if p =? "int32" then "kio.static.primitive.i32" else if p =? "int64" then "kio.static.primitive.i64"
    else if p =? "uint16" then "kio.static.primitive.u16" else if p =? "uint32" then "kio.static.primitive.u32"
    else if p =? "uint64" then "kio.static.primitive.u64" else if p =? "float64" then "kio.static.primitive.f64"
    else if p =? "string" then "builtins.str" else if p =? "bytes" then "builtins.bytes"
    else if p =? "records" then "kio.static.primitive.Records" else if p =? "bool" then "builtins.bool"
    else if p =? "uuid" then "uuid.UUID" else if p =? "error_code" then "kio.schema.errors.ErrorCode"
    else if p =? "timedelta_i32" then "kio.static.primitive.i32Timedelta"
    else if p =? "timedelta_i64" then "kio.static.primitive.i64Timedelta"
    else "kio.static.primitive.TZAware".

  (* int(default, 0): decimal, optional sign, or 0x hex *)
  Definition hex_digit (c : ascii) : option Z :=
    let n := Z.of_nat (nat_of_ascii c) in
    if ((48 <=? n) && (n <=? 57))%Z then Some (n - 48)%Z
    else if ((97 <=? n) && (n <=? 102))%Z then Some (n - 87)%Z
    else if ((65 <=? n) && (n <=? 70))%Z then Some (n - 55)%Z else None.
  Fixpoint parse_hex (s : string) (acc : Z) : option Z :=
    match s with
    | EmptyString => Some acc
    | String c tl => match hex_digit c with Some d => parse_hex tl (acc * 16 + d)%Z | None => None end
    end.
  Definition parse_int0 (s : string) : option Z :=
    let body (t : string) : option Z :=
      if starts_with "0x" t || starts_with "0X" t then
        match substring 2 (String.length t - 2) t with EmptyString => None | h => parse_hex h 0 end
      else match t with
           | String "0" (String _ _) => None           (* leading zeros are rejected by base 0 *)
           | _ => parse_nat_str t
           end in
    match s with
    | String "-" t => option_map Z.opp (body t)
    | String "+" t => body t
    | _ => body s
    end.
  Definition parse_int10 (s : string) : option Z :=
    match s with
    | String "-" t => option_map Z.opp (parse_nat_str t)
    | String "+" t => parse_nat_str t
    | _ => parse_nat_str s
    end.

  (* format_default *)
  Definition format_default (p : string) (d : string) (optional : bool) : res gdefault :=
    if d =? "null" then (if optional then Ok GDNone else Err EAssert)
    else if p =? "string" then Ok (GDStr d)
    else if str_mem p ["int8"; "int16"; "int32"; "int64"; "uint16"; "uint32"; "uint64"] then
      match parse_int0 d with Some z => Ok (GDInt z) | None => Err EValue end
    else if p =? "bool" then
      (if lower_str d =? "true" then Ok (GDBool true) else if lower_str d =? "false" then Ok (GDBool false) else Err EAssert)
    else if p =? "float64" then Ok (GDFloatText d)
    else if p =? "error_code" then match parse_int10 d with Some z => Ok (GDErrorCode z) | None => Err EValue end
    else if (p =? "timedelta_i32") || (p =? "timedelta_i64") then
      match parse_int10 d with Some z => Ok (GDMillis z) | None => Err EValue end
    else if (p =? "datetime_i64") && (d =? "-1") then (if optional then Ok GDNone else Err EAssert)
    else Err ENotImplemented.

  (* _format_default_for_tagged *)
  Definition default_for_tagged (p : string) : gdefault :=
    if str_mem p ["int8"; "int16"; "int32"; "int64"; "uint16"; "uint32"; "uint64"] then GDInt 0
    else if p =? "float64" then GDFloatText "0.0"
    else if p =? "bool" then GDBool false            (* the generator emits the text `false` *)
    else if p =? "error_code" then GDErrorCode 0
    else GDNone.

  Definition ann_qual (f : nfield) (p : string) : string :=
    match nf_entity_type f with
    | Some et => "kio.schema.types." ++ capitalize_first et
    | None => hint_of p
    end.

  Definition gen_prim_field (f : nfield) (p : string) (v : Z) : res gfield :=
    let optional := prim_nullable f p v in
    let tag := get_tag f v in
    rbind (to_snake_case (nf_name f)) (fun sname =>
    rbind (match nf_default f with
           | Some d => rmap Some (format_default p d optional)
           | None => match tag with
                     | Some _ => if nf_ignorable f then Ok (Some (default_for_tagged p)) else Ok None
                     | None => Ok None
                     end
           end) (fun dflt =>
    Ok {| gf_name := sname;
          gf_ann := GPrim (ann_qual f p) (optional || ((p =? "uuid") && match nf_entity_type f with None => true | Some _ => false end));
          gf_kafka := Some p; gf_tag := tag; gf_default := dflt |})).

  Definition gen_prim_array_field (f : nfield) (p : string) (v : Z) : res gfield :=
    rbind (to_snake_case (nf_name f)) (fun sname =>
    Ok {| gf_name := sname;
          gf_ann := GPrimArr (ann_qual f p) ((p =? "uuid") && match nf_entity_type f with None => true | Some _ => false end);
          gf_kafka := Some p; gf_tag := get_tag f v;
          gf_default := Some GDEmptyTuple |}).

  Definition gen_struct_array_field (f : nfield) (sname_struct : string) (v : Z) : res gfield :=
    rbind (to_snake_case (nf_name f)) (fun sname =>
    let tag := get_tag f v in
    Ok {| gf_name := sname; gf_ann := GEntArr sname_struct (nullable_for f v); gf_kafka := None; gf_tag := tag;
          gf_default := match tag with Some _ => Some GDEmptyTuple | None => None end |}).

  (* nested_entity_has_only_defaults: every member is a primitive or inline entity field with a
     default *)
  Definition member_has_default (commons : list string) (m : dfield) : bool :=
    match normalise commons m with
    | Ok n => match nf_kind n with
              | KPrim _ | KEnt _ _ => match nf_default n with Some _ => true | None => false end
              | _ => false
              end
    | Err _ => false
    end.

  Definition gen_entity_field (commons : list string) (f : nfield) (struct_name : string)
             (members : option (list dfield)) (v : Z) : res gfield :=
    let optional := nullable_for f v in
    let tag := get_tag f v in
    rbind (to_snake_case (nf_name f)) (fun sname =>
    rbind (match members with
           | Some ms =>
               (* inline entity field: default "null", or Type() for a tagged field whose members
                  all have defaults, or None for a tagged ignorable one *)
               match nf_default f with
               | Some _ => if optional then Ok (Some GDNone) else Err EAssert
               | None => match tag with
                         | Some _ => if forallb (member_has_default commons) ms then Ok (Some (GDEntity struct_name))
                                     else if nf_ignorable f then Ok (Some GDNone) else Ok None
                         | None => Ok None
                         end
               end
           | None =>
               (* common struct field: default=None is passed *)
               match tag with
               | Some _ => if nf_ignorable f then Ok (Some GDNone) else Ok None
               | None => Ok None
               end
           end) (fun dflt =>
    Ok {| gf_name := sname;
          gf_ann := GEnt struct_name (match members with Some _ => optional | None => false end);
          gf_kafka := None; gf_tag := tag; gf_default := dflt |})).

  (* header_schema.py *)
  Definition header_of (d : defn) (v : Z) (flexible : bool) : option string :=
    if d_kind d =? "request" then
      Some (if (Z.eqb v 0 && match d_api_key d with Some 7%Z => true | _ => false end) then "kio.schema.request_header.v0.header"
            else if flexible then "kio.schema.request_header.v2.header" else "kio.schema.request_header.v1.header")
    else if d_kind d =? "response" then
      Some (if match d_api_key d with Some 18%Z => true | _ => false end then "kio.schema.response_header.v0.header"
            else if flexible then "kio.schema.response_header.v1.header" else "kio.schema.response_header.v0.header")
    else None.

  (* generate_dataclass: nested classes first, in field order; a (name, version) pair is emitted
     once (`seen`).  Recursion: structural on the nesting of inline fields, fuel for common
     structs referring to common structs. *)
  Definition find_common (d : defn) (name : string) : option dstruct :=
    find (fun s => ds_name s =? name) (d_common d).

  Definition class_names (l : list gclass) : list string := map gc_name l.

  Section GenClass.
    Variable d : defn.
    Variable v : Z.
    Variable flexible : bool.
    Let commons := map ds_name (d_common d).

    Definition mk_class (name : string) (top : bool) (fields : list gfield) : gclass :=
      {| gc_name := name; gc_type := if top then d_kind d else "nested"; gc_version := v; gc_flexible := flexible;
         gc_api_key := if (d_kind d =? "request") || (d_kind d =? "response") then d_api_key d else None;
         gc_header := header_of d v flexible; gc_fields := fields |}.

    (* returns the classes emitted so far (dependencies first) *)
    Fixpoint gen_class (fuel : nat) (name : string) (top : bool) (fields : list dfield) (seen : list gclass)
      {struct fuel} : res (list gclass) :=
      match fuel with
      | O => Err ERecursion
      | S fuel' =>
        if str_mem name (class_names seen) then Ok seen else
        let fix go (fs : list dfield) (seen : list gclass) (acc : list gfield) {struct fs}
          : res (list gclass * list gfield) :=
          match fs with
          | [] => Ok (seen, rev acc)
          | f :: tl =>
              match normalise commons f with
              | Err e => Err e
              | Ok n =>
                  if negb (vmatches (nf_versions n) v) then go tl seen acc else
                  match nf_kind n with
                  | KPrim p => rbind (gen_prim_field n p v) (fun g => go tl seen (g :: acc))
                  | KPrimArr p => rbind (gen_prim_array_field n p v) (fun g => go tl seen (g :: acc))
                  | KEntArr sname sfields =>
                      rbind (gen_class fuel' sname false sfields seen) (fun seen' =>
                      rbind (gen_struct_array_field n sname v) (fun g => go tl seen' (g :: acc)))
                  | KEnt sname sfields =>
                      rbind (gen_class fuel' sname false sfields seen) (fun seen' =>
                      rbind (gen_entity_field commons n sname (Some sfields) v) (fun g => go tl seen' (g :: acc)))
                  | KCommonArr sname =>
                      match find_common d sname with
                      | None => Err EValue
                      | Some cs => rbind (gen_class fuel' sname false (ds_fields cs) seen) (fun seen' =>
                                   rbind (gen_struct_array_field n sname v) (fun g => go tl seen' (g :: acc)))
                      end
                  | KCommon sname =>
                      match find_common d sname with
                      | None => Err EValue
                      | Some cs => rbind (gen_class fuel' sname false (ds_fields cs) seen) (fun seen' =>
                                   rbind (gen_entity_field commons n sname None v) (fun g => go tl seen' (g :: acc)))
                      end
                  end
              end
          end in
        rbind (go fields seen []) (fun r => Ok (List.app (fst r) [mk_class name top (snd r)]))
      end.
  End GenClass.

  (* nesting depth bound: inline nesting is structural; each common-struct hop uses one unit *)
  Fixpoint depth (f : dfield) : nat :=
    match df_fields f with
    | None => 1
    | Some fs => S (fold_right (fun g acc => Nat.max (depth g) acc) 0 fs)
    end.

  Definition gen_fuel (d : defn) : nat :=
    S (fold_right (fun g acc => Nat.max (depth g) acc) 0 (d_fields d))
    + fold_right (fun s acc => S (fold_right (fun g a => Nat.max (depth g) a) 0 (ds_fields s)) + acc) 0 (d_common d).

  (* one version module *)
  Definition gen_module (d : defn) (v : Z) : res (list gclass) :=
    rbind (parse_vrange (d_flexible d)) (fun flex =>
    gen_class d v (vmatches flex v) (gen_fuel d + 2) (d_name d) true (d_fields d) []).

  Definition gen_all (d : defn) : res (list (Z * list gclass)) :=
    rbind (parse_vrange (d_valid d)) (fun valid =>
    rbind (vlist valid) (fun vs =>
    rmapM (fun v => rmap (fun cs => (v, cs)) (gen_module d v)) vs)).

  (* the package name of the API *)
  Definition package_of (d : defn) : res string := basic_name (d_name d).
End Case.
