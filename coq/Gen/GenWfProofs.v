(* Stage A: module_ok (Gen/GenWf.v), a syntactic predicate on the generated classes, implies
   wf_env of the plans read off the module (module_ok_wf): the hypothesis of every codec theorem
   holds GENERICALLY for every generated module that passes the syntactic check.
   Stage B: defn_ok, a predicate on the definition's own fields (plus: the generator does not
   raise), implies def_wf (defn_ok_wf).  The proof goes through a provenance theorem for the
   generator (every class of the module is generated from a structure of the definition that is
   reachable at the version, its fields one by one from that structure's valid fields, and every
   struct reference names an earlier class) and then through Stage A. *)
From Coq Require Import ZArith List Bool String Ascii Lia.
From KioV Require Import Base.Res Codec.Value Codec.PrimCodec Schema.Introspect Schema.Strings
  Codec.Typed Gen.Gen Gen.GenPlan Gen.GenProofs Gen.GenWf.
Import ListNotations.
Open Scope string_scope.
Open Scope list_scope.

(* ------------------------------------------------------------------------------------ *)
(* 0. small helpers                                                                      *)
(* ------------------------------------------------------------------------------------ *)
Lemma pcodec_eqb_refl : forall p, pcodec_eqb p p = true.
Proof.
  destruct p as [w s| | | |c n|c n| | | |n]; cbn [pcodec_eqb];
    rewrite ?Nat.eqb_refl, ?Bool.eqb_reflx; reflexivity.
Qed.

Lemma codec_eqb_refl : forall c, codec_eqb c c = true.
Proof.
  induction c as [p|i n|c item IH]; cbn [codec_eqb].
  - apply pcodec_eqb_refl.
  - rewrite Nat.eqb_refl, Bool.eqb_reflx. reflexivity.
  - rewrite Bool.eqb_reflx, IH. reflexivity.
Qed.

Lemma psub_refl' : forall p, psub p p = true.
Proof. intros p. unfold psub. rewrite pcodec_eqb_refl. reflexivity. Qed.

Lemma Forall2_nth_error_l : forall (A B : Type) (R : A -> B -> Prop) l1 l2 i a,
  Forall2 R l1 l2 -> nth_error l1 i = Some a -> exists b, nth_error l2 i = Some b /\ R a b.
Proof.
  intros A B R l1 l2 i a H. revert i. induction H as [|x y l1 l2 Hxy H IH]; intros i Hi.
  - destruct i; discriminate.
  - destruct i as [|i]; cbn [nth_error] in *.
    + inversion Hi; subst. exists y. auto.
    + apply IH; exact Hi.
Qed.

Lemma Forall2_length' : forall (A B : Type) (R : A -> B -> Prop) l1 l2,
  Forall2 R l1 l2 -> List.length l1 = List.length l2.
Proof. intros A B R l1 l2 H. induction H; cbn [List.length]; congruence. Qed.

Lemma all_some_Forall2 : forall (A B : Type) (F : A -> option B) l fs,
  all_some (map F l) = Some fs -> Forall2 (fun a b => F a = Some b) l fs.
Proof.
  intros A B F l. induction l as [|a tl IH]; intros fs H; cbn [map all_some] in H.
  - inversion H. constructor.
  - destruct (F a) as [b|] eqn:Ea; [|discriminate].
    destruct (all_some (map F tl)) as [bs|] eqn:Et; cbn [option_map] in H; [|discriminate].
    inversion H; subst. constructor; [exact Ea|]. apply IH. reflexivity.
Qed.

Lemma Forall2_all_some : forall (A B : Type) (F : A -> option B) l fs,
  Forall2 (fun a b => F a = Some b) l fs -> all_some (map F l) = Some fs.
Proof.
  intros A B F l fs H. induction H as [|a b l fs Hab H IH]; cbn [map all_some].
  - reflexivity.
  - rewrite Hab, IH. reflexivity.
Qed.

(* ------------------------------------------------------------------------------------ *)
(* 1. index_of, find and positions                                                       *)
(* ------------------------------------------------------------------------------------ *)
Lemma index_of_S : forall n l i, index_of n l (S i) = option_map S (index_of n l i).
Proof.
  intros n l. induction l as [|x tl IH]; intros i; cbn [index_of].
  - reflexivity.
  - destruct (x =? n); [reflexivity|]. apply IH.
Qed.

Lemma index_of_cons : forall n x tl,
  index_of n (x :: tl) 0 = if x =? n then Some 0%nat else option_map S (index_of n tl 0).
Proof. intros. cbn [index_of]. rewrite index_of_S. reflexivity. Qed.

Lemma str_mem_firstn_index : forall n l k,
  str_mem n (firstn k l) = true ->
  exists j, index_of n l 0 = Some j /\ (j < k)%nat /\ nth_error l j = Some n.
Proof.
  intros n l. induction l as [|x tl IH]; intros k H.
  - rewrite firstn_nil in H. discriminate.
  - destruct k as [|k]; [discriminate|]. cbn [firstn str_mem] in H.
    rewrite index_of_cons. destruct (x =? n) eqn:Ex.
    + apply String.eqb_eq in Ex. subst x. exists 0%nat. split; [reflexivity|]. split; [lia|reflexivity].
    + rewrite String.eqb_sym, Ex in H. cbn [orb] in H.
      destruct (IH k H) as (j & Hj & Hlt & Hn). exists (S j). rewrite Hj.
      split; [reflexivity|]. split; [lia|exact Hn].
Qed.

Lemma find_index : forall n (m : list gclass) c,
  find (fun c => gc_name c =? n) m = Some c ->
  exists j, index_of n (map gc_name m) 0 = Some j /\ nth_error m j = Some c.
Proof.
  intros n m. induction m as [|x tl IH]; intros c H; cbn [find] in H.
  - discriminate.
  - cbn [map]. rewrite index_of_cons. destruct (gc_name x =? n) eqn:Ex.
    + inversion H; subst. exists 0%nat. split; reflexivity.
    + destruct (IH c H) as (j & Hj & Hn). exists (S j). rewrite Hj. split; [reflexivity|exact Hn].
Qed.

(* ------------------------------------------------------------------------------------ *)
(* 2. pcodec_of on the known Kafka types                                                 *)
(* ------------------------------------------------------------------------------------ *)
Ltac kafka_cases H :=
  unfold known_kafka in H; apply str_mem_spec in H; cbn [primitives In] in H;
  repeat (destruct H as [H|H]; [subst|]); [..|contradiction].

Lemma pcodec_of_known : forall kt fl o, known_kafka kt = true ->
  exists p, pcodec_of kt fl o = Some p /\ pcodec_ok p = true.
Proof. intros kt fl o H. kafka_cases H; eexists; (split; [vm_compute; reflexivity|reflexivity]). Qed.

Lemma pcodec_of_sub : forall kt fl o w r, known_kafka kt = true ->
  pcodec_of kt fl false = Some w -> pcodec_of kt fl o = Some r -> psub w r = true.
Proof.
  intros kt fl o w r H Hw Hr.
  kafka_cases H; vm_compute in Hw, Hr; inversion Hw; inversion Hr; subst;
    destruct fl, o; reflexivity.
Qed.

Lemma pcodec_of_nonnull : forall kt fl o, known_kafka kt = true -> nullable_kafka kt = false ->
  pcodec_of kt fl o = pcodec_of kt fl false.
Proof.
  intros kt fl o H Hn. kafka_cases H; try (vm_compute in Hn; discriminate Hn); reflexivity.
Qed.

Lemma pcodec_of_float : forall kt fl o p, known_kafka kt = true -> (kt =? "float64") = false ->
  pcodec_of kt fl o = Some p -> p <> PF64.
Proof.
  intros kt fl o p H Hf Hp.
  kafka_cases H; try (vm_compute in Hf; discriminate Hf); vm_compute in Hp; inversion Hp; discriminate.
Qed.

(* ------------------------------------------------------------------------------------ *)
(* 3. plan_of_gfield, restated in two pieces                                             *)
(* ------------------------------------------------------------------------------------ *)
Definition gdefault_of (m : list gclass) (g : gfield) : option value :=
  match gf_default g with
  | Some (GDEntity n) => class_default m (S (List.length m)) n
  | Some d => gdefault_value (map gc_name m) d
  | None => match gf_ann g, gf_kafka g with
            | GPrim _ false, Some kt => implicit_opt kt
            | GEnt n false, _ => class_default m (S (List.length m)) n
            | _, _ => None
            end
  end.

Definition field_codecs (m : list gclass) (flexible is_rh : bool) (g : gfield) : option (codec * codec) :=
  if is_rh && (gf_name g =? "client_id") then Some (CPrim (PStr false true), CPrim (PStr false true)) else
  match gf_ann g, gf_kafka g with
  | GPrim _ opt, Some kt =>
      match pcodec_of kt flexible opt, pcodec_of kt flexible (if is_tagged g then false else opt) with
      | Some r, Some w => Some (CPrim r, CPrim w) | _, _ => None
      end
  | GPrimArr _ iopt, Some kt =>
      match pcodec_of kt flexible iopt, pcodec_of kt flexible (if is_tagged g then false else iopt) with
      | Some r, Some w => Some (CArr flexible (CPrim r), CArr flexible (CPrim w)) | _, _ => None
      end
  | GEnt n opt, None =>
      match index_of n (map gc_name m) 0 with
      | Some i => Some (CEnt i opt, CEnt i (if is_tagged g then false else opt)) | None => None
      end
  | GEntArr n _, None =>
      match index_of n (map gc_name m) 0 with
      | Some i => Some (CArr flexible (CEnt i false), CArr flexible (CEnt i false)) | None => None
      end
  | _, _ => None
  end.

Lemma plan_of_gfield_unfold : forall m fl rh g,
  plan_of_gfield m fl rh g =
  match field_codecs m fl rh g with
  | None => None
  | Some (r, w) =>
      match (if is_tagged g then gdefault_of m g else Some VNull) with
      | Some d => Some {| f2_name := gf_name g; f2_r := r; f2_w := w; f2_tag := gf_tag g; f2_default := d |}
      | None => None
      end
  end.
Proof. reflexivity. Qed.

Lemma default_ok_some : forall m g, default_ok m g = true ->
  exists d, gdefault_of m g = Some d /\ (default_is_none g = true -> d = VNull).
Proof.
  intros m g H. unfold default_ok, class_default_ok in H. unfold gdefault_of, default_is_none.
  destruct (gf_default g) as [[ | z | s | b | s | z | ms | | n]|].
  1-8: cbn [gdefault_value]; eexists; split; [reflexivity|]; intros Hn; try discriminate Hn; reflexivity.
  - destruct (class_default m (S (List.length m)) n) as [d|]; [|discriminate].
    exists d. split; [reflexivity|discriminate].
  - destruct (gf_ann g) as [q [|]|q io|n [|]|n o]; try discriminate H.
    + destruct (gf_kafka g) as [kt|]; [|discriminate]. unfold implicit_opt.
      destruct (kt =? "records"); [discriminate|]. eexists. split; [reflexivity|discriminate].
    + destruct (class_default m (S (List.length m)) n) as [d|]; [|discriminate].
      exists d. split; [reflexivity|discriminate].
Qed.

(* what wf_env asks of the two codecs of a field *)
Definition refs_good (m : list gclass) (k : nat) (w : codec) : Prop :=
  forall i, In i (codec_refs w) ->
    (i < k)%nat /\ exists n, nth_error (map gc_name m) i = Some n /\ (n =? "<no plan>") = false.

Definition plans_for (m : list gclass) (E : list cplan2) : Prop :=
  Forall2 (fun c p => plan_of_gclass m c = Some p) m E.

Definition not_float (w : codec) : bool :=
  match w with CPrim PF64 | CArr _ (CPrim PF64) => false | _ => true end.

Lemma no_tagged_float_eq : forall f,
  no_tagged_float f = match f2_tag f with Some _ => not_float (f2_w f) | None => true end.
Proof.
  intros f. unfold no_tagged_float, not_float.
  destruct (f2_tag f); destruct (f2_w f) as [[]| |? [[]| |]]; reflexivity.
Qed.

Definition codecs_good (m : list gclass) (k : nat) (tagged dnone : bool) (r w : codec) : Prop :=
  codec_sub w r = true /\ refs_lt k w = true /\ codec_ok w = true /\ codec_ok r = true /\
  (tagged = false -> codec_eqb w r = true) /\
  (codec_eqb w r || dnone = true) /\
  arr_items_eq w r = true /\
  (tagged = true -> not_float w = true) /\
  refs_good m k w /\
  (forall E, plans_for m E -> items_nonempty E w = true).

(* a plan's name, flexibility and nonemptiness are those of its class *)
Lemma plan_of_gclass_inv : forall m c p, plan_of_gclass m c = Some p ->
  exists fs, p = {| c2_name := gc_name c; c2_flexible := gc_flexible c; c2_fields := fs |} /\
    Forall2 (fun g f => plan_of_gfield m (gc_flexible c) (gc_name c =? "RequestHeader") g = Some f)
            (gc_fields c) fs.
Proof.
  intros m c p H. unfold plan_of_gclass in H.
  destruct (all_some (map (plan_of_gfield m (gc_flexible c) (gc_name c =? "RequestHeader")) (gc_fields c)))
    as [fs|] eqn:E; cbn [option_map] in H; [|discriminate].
  inversion H; subst. exists fs. split; [reflexivity|]. apply all_some_Forall2. exact E.
Qed.

Lemma field_nonempty_eq : forall m fl rh g f,
  plan_of_gfield m fl rh g = Some f -> field_nonempty f = gfield_nonempty rh g.
Proof.
  intros m fl rh g f H. rewrite plan_of_gfield_unfold in H.
  destruct (field_codecs m fl rh g) as [[r w]|] eqn:Ec; [|discriminate].
  destruct (if is_tagged g then gdefault_of m g else Some VNull) as [d|]; [|discriminate].
  inversion H; subst f; clear H. unfold field_nonempty, gfield_nonempty, is_client_id. cbn [f2_tag f2_w].
  destruct (gf_tag g) as [t|] eqn:Et; [reflexivity|].
  unfold field_codecs, is_tagged in Ec. rewrite Et in Ec.
  destruct (rh && (gf_name g =? "client_id")); [inversion Ec; reflexivity|]. cbn [orb].
  destruct (gf_ann g) as [q o|q io|n o|n o]; destruct (gf_kafka g) as [kt|]; try discriminate Ec.
  - destruct (pcodec_of kt fl o); [|discriminate]. inversion Ec. reflexivity.
  - destruct (pcodec_of kt fl io); [|discriminate]. inversion Ec. reflexivity.
  - destruct (index_of n (map gc_name m) 0); [|discriminate]. inversion Ec. reflexivity.
  - destruct (index_of n (map gc_name m) 0); [|discriminate]. inversion Ec. reflexivity.
Qed.

Lemma class_nonempty_eq : forall m c p,
  plan_of_gclass m c = Some p -> class_nonempty p = gclass_nonempty c.
Proof.
  intros m c p H. apply plan_of_gclass_inv in H as (fs & -> & HF).
  unfold class_nonempty, gclass_nonempty. cbn [c2_flexible c2_fields]. f_equal.
  induction HF as [|g f gs fs Hgf HF IH]; cbn [existsb]; [reflexivity|].
  rewrite IH, (field_nonempty_eq _ _ _ _ _ Hgf). reflexivity.
Qed.

Lemma ref_ok_index : forall m k n, ref_ok m k n = true ->
  exists j, index_of n (map gc_name m) 0 = Some j /\ (j < k)%nat /\
            nth_error (map gc_name m) j = Some n /\ (n =? "<no plan>") = false.
Proof.
  intros m k n H. unfold ref_ok in H. apply andb_true_iff in H as [H1 H2].
  apply negb_true_iff in H1. destruct (str_mem_firstn_index _ _ _ H2) as (j & Hj & Hlt & Hn).
  exists j. auto.
Qed.

(* ------------------------------------------------------------------------------------ *)
(* 4. one field                                                                          *)
(* ------------------------------------------------------------------------------------ *)
Lemma refs_good_nil : forall m k w, codec_refs w = [] -> refs_good m k w.
Proof. intros m k w H i Hi. rewrite H in Hi. destruct Hi. Qed.

Lemma codecs_good_intro : forall m k tagged dnone r w,
  codec_sub w r = true -> refs_lt k w = true -> codec_ok w = true -> codec_ok r = true ->
  (tagged = false -> codec_eqb w r = true) ->
  (codec_eqb w r || dnone = true) ->
  arr_items_eq w r = true ->
  (tagged = true -> not_float w = true) ->
  refs_good m k w ->
  (forall E, plans_for m E -> items_nonempty E w = true) ->
  codecs_good m k tagged dnone r w.
Proof. intros. unfold codecs_good. tauto. Qed.

Lemma field_ok_codecs : forall m k fl rh g, field_ok m k fl rh g = true ->
  exists r w, field_codecs m fl rh g = Some (r, w) /\
              codecs_good m k (is_tagged g) (default_is_none g) r w.
Proof.
  intros m k fl rh g H. unfold field_ok in H.
  apply andb_true_iff in H as [_ H]. unfold field_codecs. unfold is_client_id in H.
  destruct (rh && (gf_name g =? "client_id")).
  { exists (CPrim (PStr false true)), (CPrim (PStr false true)). split; [reflexivity|].
    apply codecs_good_intro; try reflexivity.
    apply refs_good_nil. reflexivity. }
  destruct (gf_ann g) as [q o|q io|n o|n o]; destruct (gf_kafka g) as [kt|]; try discriminate H.
  - (* primitive *)
    apply andb_true_iff in H as [Hk H].
    destruct (pcodec_of_known kt fl o Hk) as (r & Er & Hr).
    destruct (pcodec_of_known kt fl false Hk) as (w0 & Ew0 & Hw0).
    rewrite Er.
    destruct (is_tagged g) eqn:Etag; cbn [negb orb] in H.
    + rewrite Ew0. exists (CPrim r), (CPrim w0). split; [reflexivity|].
      apply andb_true_iff in H as [Hf Hd]. apply negb_true_iff in Hf.
      apply codecs_good_intro; cbn [codec_sub refs_lt codec_ok codec_eqb arr_items_eq items_nonempty];
        try reflexivity; try assumption.
      * eapply pcodec_of_sub; eauto.
      * discriminate.
      * destruct (default_is_none g); [apply orb_true_r|]. rewrite orb_false_r in Hd |- *.
        apply negb_true_iff in Hd. apply andb_false_iff in Hd as [Hd|Hd].
        -- subst o. rewrite Ew0 in Er. inversion Er. apply pcodec_eqb_refl.
        -- rewrite (pcodec_of_nonnull kt fl o Hk Hd), Ew0 in Er. inversion Er. apply pcodec_eqb_refl.
      * intros _. unfold not_float. pose proof (pcodec_of_float _ _ _ _ Hk Hf Ew0) as Hnf.
        destruct w0; try reflexivity. congruence.
      * apply refs_good_nil. reflexivity.
    + rewrite Er. exists (CPrim r), (CPrim r). split; [reflexivity|].
      apply codecs_good_intro; cbn [codec_sub refs_lt codec_ok codec_eqb arr_items_eq items_nonempty];
        rewrite ?psub_refl', ?pcodec_eqb_refl; try reflexivity; try assumption.
      * discriminate.
      * apply refs_good_nil. reflexivity.
  - (* array of primitives *)
    apply andb_true_iff in H as [Hk H].
    destruct (pcodec_of_known kt fl io Hk) as (r & Er & Hr).
    destruct (pcodec_of_known kt fl false Hk) as (w0 & Ew0 & Hw0).
    rewrite Er.
    destruct (is_tagged g) eqn:Etag; cbn [negb orb] in H.
    + rewrite Ew0. exists (CArr fl (CPrim r)), (CArr fl (CPrim w0)). split; [reflexivity|].
      apply andb_true_iff in H as [Hf Hd]. apply negb_true_iff in Hf.
      assert (Heq : w0 = r).
      { apply negb_true_iff in Hd. apply andb_false_iff in Hd as [Hd|Hd].
        - subst io. congruence.
        - rewrite (pcodec_of_nonnull kt fl io Hk Hd), Ew0 in Er. congruence. }
      subst w0.
      apply codecs_good_intro; cbn [codec_sub refs_lt codec_ok codec_eqb arr_items_eq items_nonempty];
        rewrite ?psub_refl', ?pcodec_eqb_refl, ?Bool.eqb_reflx; try reflexivity; try assumption.
      * intros _. unfold not_float. pose proof (pcodec_of_float _ _ _ _ Hk Hf Ew0) as Hnf.
        destruct r; try reflexivity. congruence.
      * apply refs_good_nil. reflexivity.
    + rewrite Er. exists (CArr fl (CPrim r)), (CArr fl (CPrim r)). split; [reflexivity|].
      apply codecs_good_intro; cbn [codec_sub refs_lt codec_ok codec_eqb arr_items_eq items_nonempty];
        rewrite ?psub_refl', ?pcodec_eqb_refl, ?Bool.eqb_reflx; try reflexivity; try assumption.
      * discriminate.
      * apply refs_good_nil. reflexivity.
  - (* entity *)
    apply andb_true_iff in H as [Href H]. apply negb_true_iff in H.
    destruct (ref_ok_index _ _ _ Href) as (j & Hj & Hlt & Hnth & Hnp). rewrite Hj.
    assert (Hw : (if is_tagged g then false else o) = o).
    { destruct (is_tagged g); [|reflexivity]. cbn [andb] in H. congruence. }
    rewrite Hw. exists (CEnt j o), (CEnt j o). split; [reflexivity|].
    apply Nat.ltb_lt in Hlt as Hlt'.
    apply codecs_good_intro; cbn [codec_sub refs_lt codec_ok codec_eqb arr_items_eq items_nonempty not_float];
      rewrite ?Nat.eqb_refl, ?Bool.eqb_reflx, ?Hlt'; try reflexivity.
    intros i [<-|[]]. split; [exact Hlt|]. exists n. auto.
  - (* array of entities *)
    apply andb_true_iff in H as [Href Harr].
    destruct (ref_ok_index _ _ _ Href) as (j & Hj & Hlt & Hnth & Hnp). rewrite Hj.
    exists (CArr fl (CEnt j false)), (CArr fl (CEnt j false)). split; [reflexivity|].
    apply Nat.ltb_lt in Hlt as Hlt'.
    apply codecs_good_intro; cbn [codec_sub refs_lt codec_ok codec_eqb arr_items_eq items_nonempty not_float];
      rewrite ?Nat.eqb_refl, ?Bool.eqb_reflx, ?Hlt'; try reflexivity.
    + intros i [<-|[]]. split; [exact Hlt|]. exists n. auto.
    + intros E HE. cbn [orb andb].
      unfold arr_item_ok in Harr.
      destruct (find (fun c => gc_name c =? n) m) as [c|] eqn:Ef; [|discriminate].
      destruct (find_index _ _ _ Ef) as (j' & Hj' & Hc). rewrite Hj in Hj'. inversion Hj'; subst j'.
      destruct (Forall2_nth_error_l _ _ _ _ _ _ _ HE Hc) as (p & Hp & Hcp).
      rewrite Hp. rewrite (class_nonempty_eq _ _ _ Hcp). exact Harr.
Qed.

Definition fplan_good (m : list gclass) (k : nat) (fl : bool) (g : gfield) (f : fplan2) : Prop :=
  f2_tag f = gf_tag g /\ refs_good m k (f2_w f) /\
  (forall E, plans_for m E -> wf_field E k fl f = true).

Lemma field_ok_plan : forall m k fl rh g, field_ok m k fl rh g = true ->
  exists f, plan_of_gfield m fl rh g = Some f /\ fplan_good m k fl g f.
Proof.
  intros m k fl rh g H.
  destruct (field_ok_codecs _ _ _ _ _ H) as (r & w & Ec & Hg).
  unfold field_ok in H. apply andb_true_iff in H as [H _]. apply andb_true_iff in H as [Htag Hdef].
  rewrite plan_of_gfield_unfold, Ec.
  destruct Hg as (Hsub & Hlt & Hokw & Hokr & Hun & Hteq & Harr & Hnf & Hrefs & Hitems).
  assert (Hd : exists d, (if is_tagged g then gdefault_of m g else Some VNull) = Some d /\
                         (is_tagged g = true -> default_is_none g = true -> d = VNull)).
  { destruct (is_tagged g); cbn [negb orb] in Hdef.
    - destruct (default_ok_some _ _ Hdef) as (d & Ed & Hn). exists d. auto.
    - exists VNull. split; [reflexivity|discriminate]. }
  destruct Hd as (d & Ed & Hdn). rewrite Ed. eexists. split; [reflexivity|].
  unfold fplan_good. cbn [f2_tag f2_w]. split; [reflexivity|]. split; [exact Hrefs|].
  intros E HE. unfold wf_field, wf_field0. rewrite no_tagged_float_eq.
  cbn [f2_w f2_r f2_tag f2_default].
  rewrite Hsub, Hlt, (Hitems E HE), Hokw, Hokr, Harr. cbn [andb].
  unfold tag_ok in Htag. unfold is_tagged in Hun, Hnf, Hdn.
  destruct (gf_tag g) as [t|].
  - rewrite Htag, (Hnf eq_refl). cbn [andb]. rewrite andb_true_r.
    destruct (codec_eqb w r); [reflexivity|]. cbn [orb] in Hteq |- *.
    rewrite (Hdn eq_refl Hteq). reflexivity.
  - rewrite (Hun eq_refl). reflexivity.
Qed.

Lemma fields_ok_plans : forall m k fl rh gs, forallb (field_ok m k fl rh) gs = true ->
  exists fs, Forall2 (fun g f => plan_of_gfield m fl rh g = Some f) gs fs /\
             Forall2 (fplan_good m k fl) gs fs.
Proof.
  intros m k fl rh gs. induction gs as [|g tl IH]; intros H; cbn [forallb] in H.
  - exists []. split; constructor.
  - apply andb_true_iff in H as [Hg Ht].
    destruct (field_ok_plan _ _ _ _ _ Hg) as (f & Ef & Hf).
    destruct (IH Ht) as (fs & H1 & H2). exists (f :: fs). split; constructor; auto.
Qed.

(* ------------------------------------------------------------------------------------ *)
(* 5. one class                                                                          *)
(* ------------------------------------------------------------------------------------ *)
Definition cplan_good (m : list gclass) (k : nat) (p : cplan2) : Prop :=
  (forall i, In i (flat_map (fun f => codec_refs (f2_w f)) (c2_fields p)) ->
     (i < k)%nat /\ exists n, nth_error (map gc_name m) i = Some n /\ (n =? "<no plan>") = false) /\
  (forall E, plans_for m E -> wf_class E k p = true).

Lemma class_ok_plan : forall m k c, class_ok m k c = true ->
  exists p, plan_of_gclass m c = Some p /\ cplan_good m k p.
Proof.
  intros m k c H. unfold class_ok in H. apply andb_true_iff in H as [Hf Hnd].
  destruct (fields_ok_plans _ _ _ _ _ Hf) as (fs & Hplans & Hgood).
  exists {| c2_name := gc_name c; c2_flexible := gc_flexible c; c2_fields := fs |}. split.
  - unfold plan_of_gclass. rewrite (Forall2_all_some _ _ _ _ _ Hplans). reflexivity.
  - unfold cplan_good. cbn [c2_fields]. split.
    + clear Hplans Hnd Hf. induction Hgood as [|g f gs fs Hgf HF IH]; cbn [flat_map]; intros i Hi.
      * destruct Hi.
      * apply in_app_iff in Hi as [Hi|Hi]; [|apply IH; exact Hi].
        destruct Hgf as (_ & Hr & _). apply Hr. exact Hi.
    + intros E HE. unfold wf_class. cbn [c2_fields c2_flexible].
      assert (Htags : tags_of fs = gtags (gc_fields c)).
      { clear Hplans Hnd Hf. unfold tags_of, gtags.
        induction Hgood as [|g f gs fs Hgf HF IH]; cbn [flat_map]; [reflexivity|].
        destruct Hgf as (-> & _). rewrite IH. reflexivity. }
      rewrite Htags, Hnd, andb_true_r.
      clear Hplans Hnd Hf Htags. induction Hgood as [|g f gs fs Hgf HF IH]; cbn [forallb]; [reflexivity|].
      destruct Hgf as (_ & _ & Hw). rewrite (Hw E HE), IH. reflexivity.
Qed.

(* ------------------------------------------------------------------------------------ *)
(* 6. the module: no class is replaced by `unplannable`, and the plans are well formed    *)
(* ------------------------------------------------------------------------------------ *)
Definition plan_step (m : list gclass) (acc : list cplan2) (c : gclass) : list cplan2 :=
  let p := match plan_of_gclass m c with Some p => p | None => unplannable end in
  let refs := flat_map (fun f => codec_refs (f2_w f)) (c2_fields p) in
  let ok := forallb (fun i => match nth_error acc i with
                              | Some q => negb (c2_name q =? "<no plan>")
                              | None => false
                              end) refs in
  acc ++ [if ok then p else unplannable].

Lemma plans_of_module_unfold : forall m, plans_of_module m = Some (fold_left (plan_step m) m []).
Proof. reflexivity. Qed.

Lemma plan_of_gclass_name : forall m c p, plan_of_gclass m c = Some p -> c2_name p = gc_name c.
Proof. intros m c p H. apply plan_of_gclass_inv in H as (fs & -> & _). reflexivity. Qed.

Lemma fold_plans : forall m suf pre acc,
  m = pre ++ suf -> Forall2 (fun c p => plan_of_gclass m c = Some p) pre acc ->
  classes_ok m (List.length pre) suf = true ->
  exists E', fold_left (plan_step m) suf acc = acc ++ E' /\
             Forall2 (fun c p => plan_of_gclass m c = Some p) suf E'.
Proof.
  intros m suf. induction suf as [|c tl IH]; intros pre acc Hm Hpre Hok.
  - exists []. cbn [fold_left]. rewrite app_nil_r. split; [reflexivity|constructor].
  - cbn [classes_ok] in Hok. apply andb_true_iff in Hok as [Hc Htl].
    destruct (class_ok_plan _ _ _ Hc) as (p & Ep & Hrefs & _).
    assert (Hstep : plan_step m acc c = acc ++ [p]).
    { unfold plan_step. rewrite Ep.
      match goal with |- _ ++ [if ?b then _ else _] = _ => assert (Hb : b = true) end.
      { apply forallb_forall. intros i Hi. destruct (Hrefs i Hi) as (Hlt & n & Hn & Hnp).
        destruct (nth_error pre i) as [c'|] eqn:Ec'.
        2:{ apply nth_error_None in Ec'. lia. }
        destruct (Forall2_nth_error_l _ _ _ _ _ _ _ Hpre Ec') as (q & Eq & Hq).
        rewrite Eq. rewrite (plan_of_gclass_name _ _ _ Hq).
        assert (Hm' : nth_error m i = Some c').
        { rewrite Hm, nth_error_app1; [exact Ec'|exact Hlt]. }
        rewrite (map_nth_error gc_name _ _ Hm') in Hn. inversion Hn; subst n.
        rewrite Hnp. reflexivity. }
      rewrite Hb. reflexivity. }
    cbn [fold_left]. rewrite Hstep.
    destruct (IH (pre ++ [c]) (acc ++ [p])) as (E' & HE' & HF).
    + rewrite <- app_assoc. exact Hm.
    + apply Forall2_app; [exact Hpre|]. constructor; [exact Ep|constructor].
    + rewrite app_length. cbn [List.length]. rewrite Nat.add_1_r. exact Htl.
    + exists (p :: E'). split.
      * rewrite HE', <- app_assoc. reflexivity.
      * constructor; assumption.
Qed.

Lemma classes_ok_wf_from : forall m E suf E' k,
  plans_for m E -> classes_ok m k suf = true ->
  Forall2 (fun c p => plan_of_gclass m c = Some p) suf E' ->
  wf_from E k E' = true.
Proof.
  intros m E suf. induction suf as [|c tl IH]; intros E' k HE Hok HF.
  - inversion HF. reflexivity.
  - inversion HF as [|c0 p tl0 E'' Hcp HF']; subst. cbn [classes_ok] in Hok.
    apply andb_true_iff in Hok as [Hc Htl].
    destruct (class_ok_plan _ _ _ Hc) as (p' & Ep' & _ & Hwf).
    rewrite Hcp in Ep'. inversion Ep'; subst p'.
    cbn [wf_from]. rewrite (Hwf E HE). cbn [andb]. apply IH; assumption.
Qed.

(* Stage A *)
Theorem module_ok_plans : forall m, module_ok m = true ->
  exists ps, plans_of_module m = Some ps /\ plans_for m ps.
Proof.
  intros m H. unfold module_ok in H.
  destruct (fold_plans m m [] [] eq_refl (Forall2_nil _) H) as (E' & HE & HF).
  exists E'. rewrite plans_of_module_unfold, HE. split; [reflexivity|exact HF].
Qed.

Theorem module_ok_wf : forall m ps,
  module_ok m = true -> plans_of_module m = Some ps -> wf_env ps = true.
Proof.
  intros m ps H Hp. destruct (module_ok_plans m H) as (ps' & Hp' & HF).
  rewrite Hp in Hp'. inversion Hp'; subst ps'.
  unfold wf_env. eapply classes_ok_wf_from; eauto.
Qed.
Print Assumptions module_ok_wf.

(* ------------------------------------------------------------------------------------ *)
(* 7. the predicate is satisfiable: a module with a flexible top-level class carrying a   *)
(*    tagged nullable string and a tagged struct with an entity default, an array of a     *)
(*    nested struct and a nullable nested struct                                           *)
(* ------------------------------------------------------------------------------------ *)
Definition example_class (name ty : string) (fs : list gfield) : gclass :=
  {| gc_name := name; gc_type := ty; gc_version := 3%Z; gc_flexible := true; gc_api_key := Some 99%Z;
     gc_header := Some "kio.schema.request_header.v2.header"; gc_fields := fs |}.

Definition example_module : list gclass :=
  [ example_class "Item" "nested"
      [ {| gf_name := "name"; gf_ann := GPrim "builtins.str" false; gf_kafka := Some "string";
           gf_tag := None; gf_default := None |};
        {| gf_name := "partitions"; gf_ann := GPrimArr "kio.static.primitive.i32" false;
           gf_kafka := Some "int32"; gf_tag := None; gf_default := Some GDEmptyTuple |} ];
    example_class "Extra" "nested"
      [ {| gf_name := "value"; gf_ann := GPrim "kio.static.primitive.i64" false; gf_kafka := Some "int64";
           gf_tag := None; gf_default := None |} ];
    example_class "ExampleRequest" "request"
      [ {| gf_name := "items"; gf_ann := GEntArr "Item" false; gf_kafka := None; gf_tag := None;
           gf_default := None |};
        {| gf_name := "extra"; gf_ann := GEnt "Extra" true; gf_kafka := None; gf_tag := None;
           gf_default := Some GDNone |};
        {| gf_name := "cluster_id"; gf_ann := GPrim "builtins.str" true; gf_kafka := Some "string";
           gf_tag := Some 0%Z; gf_default := Some GDNone |};
        {| gf_name := "first"; gf_ann := GEnt "Item" false; gf_kafka := None; gf_tag := Some 1%Z;
           gf_default := Some (GDEntity "Item") |} ] ].

Definition example_plans : list cplan2 :=
  [ {| c2_name := "Item"; c2_flexible := true;
       c2_fields :=
         [ {| f2_name := "name"; f2_r := CPrim (PStr true false); f2_w := CPrim (PStr true false);
              f2_tag := None; f2_default := VNull |};
           {| f2_name := "partitions"; f2_r := CArr true (CPrim (PInt 4 true));
              f2_w := CArr true (CPrim (PInt 4 true)); f2_tag := None; f2_default := VNull |} ] |};
    {| c2_name := "Extra"; c2_flexible := true;
       c2_fields :=
         [ {| f2_name := "value"; f2_r := CPrim (PInt 8 true); f2_w := CPrim (PInt 8 true);
              f2_tag := None; f2_default := VNull |} ] |};
    {| c2_name := "ExampleRequest"; c2_flexible := true;
       c2_fields :=
         [ {| f2_name := "items"; f2_r := CArr true (CEnt 0 false); f2_w := CArr true (CEnt 0 false);
              f2_tag := None; f2_default := VNull |};
           {| f2_name := "extra"; f2_r := CEnt 1 true; f2_w := CEnt 1 true; f2_tag := None;
              f2_default := VNull |};
           {| f2_name := "cluster_id"; f2_r := CPrim (PStr true true); f2_w := CPrim (PStr true false);
              f2_tag := Some 0%Z; f2_default := VNull |};
           {| f2_name := "first"; f2_r := CEnt 0 false; f2_w := CEnt 0 false; f2_tag := Some 1%Z;
              f2_default := VEnt [VStr []; VArr []] |} ] |} ].

Example module_ok_nonvacuous :
  module_ok example_module = true /\ plans_of_module example_module = Some example_plans.
Proof. split; vm_compute; reflexivity. Qed.

(* hence, by the theorem (not by evaluating wf_env) *)
Example example_plans_wf : wf_env example_plans = true.
Proof. exact (module_ok_wf _ _ (proj1 module_ok_nonvacuous) (proj2 module_ok_nonvacuous)). Qed.

(* and the predicate rejects what wf_env rejects: a tag on a non-flexible class, a tagged
   float64, a duplicate tag, a forward reference, an array over a class that can be empty *)
Definition tiny (fl : bool) (fs : list gfield) : list gclass :=
  [ {| gc_name := "Empty"; gc_type := "nested"; gc_version := 0%Z; gc_flexible := fl; gc_api_key := None;
       gc_header := None; gc_fields := [] |};
    {| gc_name := "Top"; gc_type := "data"; gc_version := 0%Z; gc_flexible := fl; gc_api_key := None;
       gc_header := None; gc_fields := fs |} ].
Definition tfield (ann : gann) (kt : option string) (tag : option Z) (d : option gdefault) : gfield :=
  {| gf_name := "x"; gf_ann := ann; gf_kafka := kt; gf_tag := tag; gf_default := d |}.
Definition both_reject (m : list gclass) : bool :=
  negb (module_ok m) && match plans_of_module m with Some ps => negb (wf_env ps) | None => true end.
Example module_ok_rejects :
  both_reject (tiny false [tfield (GPrim "q" false) (Some "int32") (Some 0%Z) None]) = true /\
  both_reject (tiny true [tfield (GPrim "q" false) (Some "float64") (Some 0%Z) None]) = true /\
  both_reject (tiny true [tfield (GPrim "q" false) (Some "int8") (Some 1%Z) None;
                          tfield (GPrim "q" false) (Some "int8") (Some 1%Z) None]) = true /\
  both_reject (tiny true [tfield (GEnt "Top" false) None None None]) = true /\
  both_reject (tiny false [tfield (GEntArr "Empty" false) None None None]) = true /\
  both_reject (tiny true [tfield (GPrim "q" true) (Some "string") (Some 0%Z) (Some (GDStr "a"))]) = true /\
  both_reject (tiny true [tfield (GEnt "Empty" true) None (Some 0%Z) (Some GDNone)]) = true /\
  (* ... and accepts the flexible variant of the array case *)
  module_ok (tiny true [tfield (GEntArr "Empty" false) None None None]) = true.
Proof. vm_compute. repeat split; reflexivity. Qed.

(* ==================================================================================== *)
(* Stage B: defn_ok, a predicate on the definition, implies def_wf                        *)
(* ==================================================================================== *)
Lemma In_firstn : forall (A : Type) (x : A) k l, In x (firstn k l) -> In x l.
Proof.
  intros A x k. induction k as [|k IH]; intros l H; [destruct H|].
  destruct l as [|y tl]; [destruct H|]. cbn [firstn] in H. destruct H as [H|H]; [left; exact H|right; auto].
Qed.

Lemma find_app' : forall (A : Type) (f : A -> bool) l1 l2,
  find f (l1 ++ l2) = match find f l1 with Some x => Some x | None => find f l2 end.
Proof.
  intros A f l1 l2. induction l1 as [|x tl IH]; cbn [find app]; [reflexivity|].
  destruct (f x); [reflexivity|exact IH].
Qed.

Lemma find_name_in : forall s (l : list gclass), In s (class_names l) ->
  exists c, find (fun c => gc_name c =? s) l = Some c /\ In c l /\ gc_name c = s.
Proof.
  intros s l. induction l as [|x tl IH]; intros H; [destruct H|].
  cbn [find]. destruct (gc_name x =? s) eqn:Ex.
  - exists x. apply String.eqb_eq in Ex. split; [reflexivity|]. split; [left; reflexivity|exact Ex].
  - cbn [class_names map] in H. destruct H as [H|H].
    + rewrite H, String.eqb_refl in Ex. discriminate.
    + destruct (IH H) as (c & Hc & Hi & Hn). exists c. split; [exact Hc|]. split; [right; exact Hi|exact Hn].
Qed.

Section StageB.
  Variable builtins : list string.
  Variable d : defn.
  Variable v : Z.
  Variable flex : bool.
  Variable needed : list string.
  Variable arr_items : list string.
  Local Notation commons := (map ds_name (d_common d)).

  (* the generated field of one normalised field (the nested class is generated separately) *)
  Definition gen_field (n : nfield) : res gfield :=
    match nf_kind n with
    | KPrim p => gen_prim_field builtins n p v
    | KPrimArr p => gen_prim_array_field builtins n p v
    | KEntArr s _ | KCommonArr s => gen_struct_array_field builtins n s v
    | KEnt s sf => gen_entity_field builtins commons n s (Some sf) v
    | KCommon s => gen_entity_field builtins commons n s None v
    end.

  Lemma gen_field_gfact : forall n g, gen_field n = Ok g -> gfact builtins v n g.
  Proof.
    intros n g H. unfold gen_field in H. destruct (nf_kind n).
    - eapply gen_prim_field_fact; eauto.
    - eapply gen_prim_array_field_fact; eauto.
    - eapply gen_struct_array_field_fact; eauto.
    - eapply gen_entity_field_fact; eauto.
    - eapply gen_struct_array_field_fact; eauto.
    - eapply gen_entity_field_fact; eauto.
  Qed.

  Lemma gen_field_tag : forall n g, gen_field n = Ok g -> gf_tag g = get_tag n v.
  Proof. intros n g H. apply gen_field_gfact in H. exact (proj2 H). Qed.

  (* ---- the loop of gen_class, recording the generated field in full ---- *)
  Section Loop2.
    Variable rec : string -> bool -> list dfield -> list gclass -> res (list gclass).

    Inductive loop2 : list dfield -> list gclass -> list gclass -> list gfield -> Prop :=
    | L2_nil : forall seen, loop2 [] seen seen []
    | L2_skip : forall f n tl seen seen' gs,
        normalise commons f = Ok n -> vmatches (nf_versions n) v = false ->
        loop2 tl seen seen' gs -> loop2 (f :: tl) seen seen' gs
    | L2_leaf : forall f n tl seen seen' gs g,
        normalise commons f = Ok n -> vmatches (nf_versions n) v = true ->
        nested_of d (nf_kind n) = Ok None -> gen_field n = Ok g ->
        loop2 tl seen seen' gs -> loop2 (f :: tl) seen seen' (g :: gs)
    | L2_struct : forall f n tl seen seen1 seen' gs g sname sfields,
        normalise commons f = Ok n -> vmatches (nf_versions n) v = true ->
        nested_of d (nf_kind n) = Ok (Some (sname, sfields)) ->
        rec sname false sfields seen = Ok seen1 -> gen_field n = Ok g ->
        loop2 tl seen1 seen' gs -> loop2 (f :: tl) seen seen' (g :: gs).

    Lemma go_loop_loop2 : forall fs seen acc seen' out,
      go_loop builtins d v rec fs seen acc = Ok (seen', out) ->
      exists gs, out = rev acc ++ gs /\ loop2 fs seen seen' gs.
    Proof.
      induction fs as [|f tl IH]; intros seen acc seen' out H.
      - simpl in H. inversion H; subst. exists []. rewrite app_nil_r. split; [reflexivity|constructor].
      - cbn [go_loop] in H.
        destruct (normalise commons f) as [n|e] eqn:En; [|discriminate].
        destruct (vmatches (nf_versions n) v) eqn:Ev; cbn [negb] in H; cbv iota in H.
        2:{ apply IH in H as (gs & -> & R). exists gs. split; [reflexivity|]. eapply L2_skip; eauto. }
        assert (Hcons : forall g gs, rev (g :: acc) ++ gs = rev acc ++ g :: gs).
        { intros. simpl. rewrite <- app_assoc. reflexivity. }
        destruct (nf_kind n) as [p|p|s sf|s sf|s|s] eqn:Ek.
        + destruct (gen_prim_field builtins n p v) as [g|e] eqn:Eg; cbn [rbind] in H; [|discriminate].
          apply IH in H as (gs & -> & R). exists (g :: gs). split; [apply Hcons|].
          eapply L2_leaf; eauto. rewrite Ek; reflexivity. unfold gen_field; rewrite Ek; exact Eg.
        + destruct (gen_prim_array_field builtins n p v) as [g|e] eqn:Eg; cbn [rbind] in H; [|discriminate].
          apply IH in H as (gs & -> & R). exists (g :: gs). split; [apply Hcons|].
          eapply L2_leaf; eauto. rewrite Ek; reflexivity. unfold gen_field; rewrite Ek; exact Eg.
        + destruct (rec s false sf seen) as [s1|e] eqn:Er; cbn [rbind] in H; [|discriminate].
          destruct (gen_struct_array_field builtins n s v) as [g|e] eqn:Eg; cbn [rbind] in H; [|discriminate].
          apply IH in H as (gs & -> & R). exists (g :: gs). split; [apply Hcons|].
          eapply L2_struct; eauto. rewrite Ek; reflexivity. unfold gen_field; rewrite Ek; exact Eg.
        + destruct (rec s false sf seen) as [s1|e] eqn:Er; cbn [rbind] in H; [|discriminate].
          destruct (gen_entity_field builtins commons n s (Some sf) v) as [g|e] eqn:Eg; cbn [rbind] in H; [|discriminate].
          apply IH in H as (gs & -> & R). exists (g :: gs). split; [apply Hcons|].
          eapply L2_struct; eauto. rewrite Ek; reflexivity. unfold gen_field; rewrite Ek; exact Eg.
        + destruct (find_common d s) as [cs|] eqn:Ef; [|discriminate].
          destruct (rec s false (ds_fields cs) seen) as [s1|e] eqn:Er; cbn [rbind] in H; [|discriminate].
          destruct (gen_struct_array_field builtins n s v) as [g|e] eqn:Eg; cbn [rbind] in H; [|discriminate].
          apply IH in H as (gs & -> & R). exists (g :: gs). split; [apply Hcons|].
          eapply L2_struct; eauto. rewrite Ek; simpl; rewrite Ef; reflexivity.
          unfold gen_field; rewrite Ek; exact Eg.
        + destruct (find_common d s) as [cs|] eqn:Ef; [|discriminate].
          destruct (rec s false (ds_fields cs) seen) as [s1|e] eqn:Er; cbn [rbind] in H; [|discriminate].
          destruct (gen_entity_field builtins commons n s None v) as [g|e] eqn:Eg; cbn [rbind] in H; [|discriminate].
          apply IH in H as (gs & -> & R). exists (g :: gs). split; [apply Hcons|].
          eapply L2_struct; eauto. rewrite Ek; simpl; rewrite Ef; reflexivity.
          unfold gen_field; rewrite Ek; exact Eg.
    Qed.

    Lemma loop2_loop_rel : forall fs seen seen' gs,
      loop2 fs seen seen' gs -> loop_rel builtins d v rec fs seen seen' gs.
    Proof.
      intros fs seen seen' gs R. induction R.
      - constructor.
      - eapply LR_skip; eauto.
      - eapply LR_leaf; eauto. apply gen_field_gfact; assumption.
      - eapply LR_struct; eauto. apply gen_field_gfact; assumption.
    Qed.
  End Loop2.

  Lemma gen_class_inv2 : forall fuel name top fields seen l,
    gen_class builtins d v flex fuel name top fields seen = Ok l ->
    exists fuel', fuel = S fuel' /\
      ((str_mem name (class_names seen) = true /\ l = seen) \/
       (str_mem name (class_names seen) = false /\
        exists seen' gs,
          loop2 (gen_class builtins d v flex fuel') fields seen seen' gs /\
          l = seen' ++ [mk_class d v flex name top gs])).
  Proof.
    intros fuel name top fields seen l H.
    destruct fuel as [|fuel']; [discriminate|]. exists fuel'. split; [reflexivity|].
    rewrite gen_class_S in H.
    destruct (str_mem name (class_names seen)) eqn:Em.
    - left. inversion H. auto.
    - right. split; [reflexivity|].
      destruct (go_loop builtins d v (gen_class builtins d v flex fuel') fields seen []) as [[s' out]|e] eqn:E;
        cbn [rbind] in H; [|discriminate].
      apply go_loop_loop2 in E as (gs & Eo & R). simpl in Eo. subst out.
      inversion H. simpl. eauto.
  Qed.

  Lemma gen_class_has_name : forall fuel name top fields seen l,
    gen_class builtins d v flex fuel name top fields seen = Ok l -> In name (class_names l).
  Proof.
    intros fuel name top fields seen l H.
    apply gen_class_inv in H as (fuel' & _ & [[Hm ->]|[_ (seen' & gs & _ & ->)]]).
    - apply str_mem_spec. exact Hm.
    - rewrite class_names_app. apply in_app_iff. right. left. reflexivity.
  Qed.

  (* ---- every generated class comes from a reachable structure of the definition ---- *)
  Definition frel (earlier : list string) (n : nfield) (g : gfield) : Prop :=
    gen_field n = Ok g /\
    match nested_of d (nf_kind n) with
    | Ok None => True
    | Ok (Some (s, _)) => In s earlier
    | Err _ => False
    end.

  Definition cinv (earlier : list gclass) (top : bool) (c : gclass) : Prop :=
    exists name fields gs, c = mk_class d v flex name top gs /\
      struct_ok d v flex needed arr_items name fields = true /\
      Forall2 (frel (class_names earlier)) (valid_fields d v fields) gs.

  Definition InvN (l : list gclass) : Prop :=
    forall k c, nth_error l k = Some c -> cinv (firstn k l) false c.

  Lemma InvN_snoc : forall l c, InvN l -> cinv l false c -> InvN (l ++ [c]).
  Proof.
    intros l c Hl Hc k c' Hk. destruct (Nat.lt_ge_cases k (List.length l)) as [Hlt|Hge].
    - rewrite nth_error_app1 in Hk by exact Hlt. rewrite firstn_app.
      replace (k - List.length l)%nat with 0%nat by lia. cbn [firstn]. rewrite app_nil_r. apply Hl. exact Hk.
    - rewrite nth_error_app2 in Hk by exact Hge.
      destruct (k - List.length l)%nat as [|j] eqn:E.
      + cbn in Hk. inversion Hk; subst c'. assert (k = List.length l) by lia. subst k.
        rewrite firstn_app, Nat.sub_diag, firstn_all. cbn [firstn]. rewrite app_nil_r. exact Hc.
      + cbn in Hk. destruct j; discriminate.
  Qed.

  Lemma valid_fields_skip : forall f n tl, normalise commons f = Ok n ->
    vmatches (nf_versions n) v = false -> valid_fields d v (f :: tl) = valid_fields d v tl.
  Proof. intros f n tl H H0. unfold valid_fields. cbn [flat_map]. rewrite H, H0. reflexivity. Qed.

  Lemma valid_fields_keep : forall f n tl, normalise commons f = Ok n ->
    vmatches (nf_versions n) v = true -> valid_fields d v (f :: tl) = n :: valid_fields d v tl.
  Proof. intros f n tl H H0. unfold valid_fields. cbn [flat_map]. rewrite H, H0. reflexivity. Qed.

  Definition nested_ok (fuel : nat) (n : nfield) : bool :=
    match nested_of d (nf_kind n) with
    | Ok (Some (s, sf)) => all_structs_ok d v flex needed arr_items fuel s sf
    | _ => true
    end.

  Lemma all_structs_ok_S : forall fuel name fields,
    all_structs_ok d v flex needed arr_items (S fuel) name fields =
    struct_ok d v flex needed arr_items name fields && forallb (nested_ok fuel) (valid_fields d v fields).
  Proof. reflexivity. Qed.

  Lemma loop2_inv : forall fuel,
    (forall name fields seen l,
       gen_class builtins d v flex fuel name false fields seen = Ok l ->
       all_structs_ok d v flex needed arr_items fuel name fields = true -> InvN seen -> InvN l) ->
    forall fs seen seen' gs,
      loop2 (gen_class builtins d v flex fuel) fs seen seen' gs ->
      forallb (nested_ok fuel) (valid_fields d v fs) = true -> InvN seen ->
      InvN seen' /\
      forall earlier, incl (class_names seen') earlier -> Forall2 (frel earlier) (valid_fields d v fs) gs.
  Proof.
    intros fuel Hrec fs seen seen' gs R. induction R as
      [seen|f n tl seen seen' gs Hn Hv R IH|f n tl seen seen' gs g Hn Hv Hnest Hg R IH
      |f n tl seen seen1 seen' gs g s sf Hn Hv Hnest Hr Hg R IH]; intros Hf Hi.
    - split; [exact Hi|]. intros e _. constructor.
    - rewrite (valid_fields_skip _ _ _ Hn Hv) in *. apply IH; assumption.
    - rewrite (valid_fields_keep _ _ _ Hn Hv) in *. cbn [forallb] in Hf.
      apply andb_true_iff in Hf as [_ Hf]. destruct (IH Hf Hi) as (Hi' & HF).
      split; [exact Hi'|]. intros e He. constructor; [|apply HF; exact He].
      split; [exact Hg|]. rewrite Hnest. exact I.
    - rewrite (valid_fields_keep _ _ _ Hn Hv) in *. cbn [forallb] in Hf.
      apply andb_true_iff in Hf as [Hh Hf]. unfold nested_ok in Hh. rewrite Hnest in Hh.
      pose proof (Hrec _ _ _ _ Hr Hh Hi) as Hi1.
      destruct (IH Hf Hi1) as (Hi' & HF).
      split; [exact Hi'|]. intros e He. constructor; [|apply HF; exact He].
      split; [exact Hg|]. rewrite Hnest.
      apply He. apply loop2_loop_rel in R. destruct (loop_rel_app _ _ _ _ _ _ _ _ _ R) as [mid ->].
      rewrite class_names_app. apply in_app_iff. left. eapply gen_class_has_name; eauto.
  Qed.

  Theorem gen_class_provenance : forall fuel name top fields seen l,
    gen_class builtins d v flex fuel name top fields seen = Ok l ->
    all_structs_ok d v flex needed arr_items fuel name fields = true -> InvN seen ->
    l = seen \/
    exists seen' gs, l = seen' ++ [mk_class d v flex name top gs] /\ InvN seen' /\
                     cinv seen' top (mk_class d v flex name top gs).
  Proof.
    induction fuel as [|fuel IH]; intros name top fields seen l H Hs Hi; [discriminate|].
    apply gen_class_inv2 in H as (fuel' & Ef & [[_ ->]|[_ (seen' & gs & R & ->)]]); [left; reflexivity|].
    inversion Ef; subst fuel'. clear Ef. right.
    rewrite all_structs_ok_S in Hs. apply andb_true_iff in Hs as [Hso Hnest].
    assert (Hrec : forall name fields seen l,
               gen_class builtins d v flex fuel name false fields seen = Ok l ->
               all_structs_ok d v flex needed arr_items fuel name fields = true -> InvN seen -> InvN l).
    { intros nm fs sn l' Hg Ha Hsn. destruct (IH _ _ _ _ _ Hg Ha Hsn) as [->|(s' & gs' & -> & Hi' & Hc)].
      - exact Hsn.
      - apply InvN_snoc; assumption. }
    destruct (loop2_inv fuel Hrec _ _ _ _ R Hnest Hi) as (Hi' & HF).
    exists seen', gs. split; [reflexivity|]. split; [exact Hi'|].
    exists name, fields, gs. split; [reflexivity|]. split; [exact Hso|].
    apply HF. apply incl_refl.
  Qed.
End StageB.

(* ---- what the field generators emit ---- *)
Definition gd_plain (x : gdefault) : bool := match x with GDEntity _ => false | _ => true end.

Lemma format_default_plain : forall p dd o x, format_default p dd o = Ok x -> gd_plain x = true.
Proof.
  intros p dd o x H. unfold format_default in H.
  repeat match type of H with
         | (if ?b then _ else _) = _ => destruct b
         | match ?z with Some _ => _ | None => _ end = _ => destruct z
         end; inversion H; reflexivity.
Qed.

Lemma format_default_null : forall p o x, format_default p "null" o = Ok x -> x = GDNone.
Proof. intros p o x H. unfold format_default in H. cbn in H. destruct o; inversion H. reflexivity. Qed.

Lemma format_default_dt : forall o x, format_default "datetime_i64" "-1" o = Ok x -> x = GDNone.
Proof. intros o x H. destruct o; vm_compute in H; inversion H. reflexivity. Qed.

Lemma default_for_tagged_plain : forall p, gd_plain (default_for_tagged p) = true.
Proof.
  intros p. unfold default_for_tagged.
  repeat match goal with |- context [if ?b then _ else _] => destruct b end; reflexivity.
Qed.

Lemma default_for_tagged_nullable : forall p, nullable_kafka p = true -> default_for_tagged p = GDNone.
Proof.
  intros p H. unfold nullable_kafka in H. apply str_mem_spec in H. cbn [In] in H.
  repeat (destruct H as [H|H]; [subst; reflexivity|]). contradiction.
Qed.

Lemma uuid_not_nullable : forall p, (p =? "uuid") = true -> nullable_kafka p = false.
Proof. intros p H. apply String.eqb_eq in H. subst. reflexivity. Qed.

Lemma default_ok_plain : forall m g x, gf_default g = Some x -> gd_plain x = true -> default_ok m g = true.
Proof. intros m g x H Hx. unfold default_ok. rewrite H. destruct x; try reflexivity. discriminate. Qed.

Section FieldInv.
  Variable builtins : list string.
  Variable d : defn.
  Variable v : Z.
  Local Notation commons := (map ds_name (d_common d)).

  Lemma gen_prim_field_inv : forall n p g, gen_prim_field builtins n p v = Ok g ->
    gf_ann g = GPrim (ann_qual n p) (prim_optional v n p) /\ gf_kafka g = Some p /\
    match nf_default n with
    | Some dd => exists x, format_default p dd (prim_nullable n p v) = Ok x /\ gf_default g = Some x
    | None => gf_default g = if ntagged v n && nf_ignorable n then Some (default_for_tagged p) else None
    end.
  Proof.
    intros n p g H. unfold gen_prim_field in H. cbv zeta in H.
    destruct (to_snake_case builtins (nf_name n)) as [sn|e]; cbn [rbind] in H; [|discriminate].
    unfold ntagged. destruct (nf_default n) as [dd|].
    - destruct (format_default p dd (prim_nullable n p v)) as [x|e] eqn:Ef; cbn [rmap rbind] in H; [|discriminate].
      inversion H; subst g; clear H. cbn. split; [reflexivity|]. split; [reflexivity|]. exists x. auto.
    - destruct (get_tag n v) as [t|]; [destruct (nf_ignorable n)|]; cbn [rbind] in H;
        inversion H; subst g; clear H; cbn; auto.
  Qed.

  Lemma gen_prim_array_field_inv : forall n p g, gen_prim_array_field builtins n p v = Ok g ->
    exists io, gf_ann g = GPrimArr (ann_qual n p) io /\ (io = true -> (p =? "uuid") = true) /\
               gf_kafka g = Some p /\ gf_default g = Some GDEmptyTuple.
  Proof.
    intros n p g H. unfold gen_prim_array_field in H.
    destruct (to_snake_case builtins (nf_name n)) as [sn|e]; cbn [rbind] in H; [|discriminate].
    inversion H; subst g; clear H. cbn. eexists. split; [reflexivity|]. split; [|auto].
    intros Hio. apply andb_true_iff in Hio as [Hio _]. exact Hio.
  Qed.

  Lemma gen_struct_array_field_inv : forall n s g, gen_struct_array_field builtins n s v = Ok g ->
    gf_ann g = GEntArr s (nullable_for n v) /\ gf_kafka g = None /\
    gf_default g = if ntagged v n then Some GDEmptyTuple else None.
  Proof.
    intros n s g H. unfold gen_struct_array_field in H. cbv zeta in H.
    destruct (to_snake_case builtins (nf_name n)) as [sn|e]; cbn [rbind] in H; [|discriminate].
    inversion H; subst g; clear H. cbn. unfold ntagged. destruct (get_tag n v); auto.
  Qed.

  Lemma gen_entity_field_inline_inv : forall n s sf g,
    gen_entity_field builtins commons n s (Some sf) v = Ok g ->
    gf_ann g = GEnt s (nullable_for n v) /\ gf_kafka g = None /\
    (gf_default g = Some GDNone \/ gf_default g = Some (GDEntity s) \/ gf_default g = None) /\
    (match nf_default n with
     | Some _ => true
     | None => ntagged v n && negb (forallb (member_has_default commons) sf) && nf_ignorable n
     end = true -> gf_default g = Some GDNone) /\
    (ntagged v n = false -> nf_default n = None -> gf_default g = None).
  Proof.
    intros n s sf g H. unfold gen_entity_field in H. cbv zeta in H.
    destruct (to_snake_case builtins (nf_name n)) as [sn|e]; cbn [rbind] in H; [|discriminate].
    unfold ntagged. destruct (nf_default n) as [dd|].
    - destruct (nullable_for n v); cbn [rbind] in H; [|discriminate].
      inversion H; subst g; clear H. cbn. repeat split; auto. discriminate.
    - destruct (get_tag n v) as [t|];
        [destruct (forallb (member_has_default commons) sf); [|destruct (nf_ignorable n)]|];
        cbn [rbind] in H; inversion H; subst g; clear H; cbn; repeat split; auto; discriminate.
  Qed.

  Lemma gen_entity_field_common_inv : forall n s g,
    gen_entity_field builtins commons n s None v = Ok g ->
    gf_ann g = GEnt s false /\ gf_kafka g = None /\
    gf_default g = if ntagged v n && nf_ignorable n then Some GDNone else None.
  Proof.
    intros n s g H. unfold gen_entity_field in H. cbv zeta in H.
    destruct (to_snake_case builtins (nf_name n)) as [sn|e]; cbn [rbind] in H; [|discriminate].
    unfold ntagged. destruct (get_tag n v) as [t|]; [destruct (nf_ignorable n)|];
      cbn [rbind] in H; inversion H; subst g; clear H; cbn; auto.
  Qed.
End FieldInv.

(* ---- a field of the definition that is ok generates a field that is ok ---- *)
Section Transfer.
  Variable builtins : list string.
  Variable d : defn.
  Variable v : Z.
  Variable flex : bool.
  Variable needed : list string.
  Variable arr_items : list string.
  Local Notation commons := (map ds_name (d_common d)).

  Lemma is_tagged_ntagged : forall n g, gen_field builtins d v n = Ok g -> is_tagged g = ntagged v n.
  Proof.
    intros n g H. unfold is_tagged, ntagged. rewrite (gen_field_tag _ _ _ _ _ H). reflexivity.
  Qed.

  Lemma nfield_field_ok : forall m k rh n g,
    nfield_ok d v flex needed arr_items n = true ->
    frel builtins d v (class_names (firstn k m)) n g ->
    (forall s, str_mem s arr_items = true -> In s (class_names (firstn k m)) -> arr_item_ok m s = true) ->
    (forall s, str_mem s needed = true -> In s (class_names (firstn k m)) -> class_default_ok m s = true) ->
    field_ok m k flex rh g = true.
  Proof.
    intros m k rh n g Hok [Hg Hnest] Harr Hdef.
    pose proof (gen_field_tag _ _ _ _ _ Hg) as Htag.
    pose proof (is_tagged_ntagged _ _ Hg) as Hit.
    unfold nfield_ok in Hok. apply andb_true_iff in Hok as [Hok Hneed].
    apply andb_true_iff in Hok as [Htok Hk].
    unfold field_ok. rewrite Htag, Htok, Hit. cbn [andb].
    assert (Href : forall s, In s (class_names (firstn k m)) -> negb (s =? "<no plan>") = true ->
                             ref_ok m k s = true).
    { intros s Hs Hnp. unfold ref_ok. rewrite Hnp. cbn [andb]. apply str_mem_spec.
      rewrite firstn_map. exact Hs. }
    unfold gen_field in Hg. destruct (nf_kind n) as [p|p|s sf|s sf|s|s] eqn:Ek.
    - (* primitive *)
      destruct (gen_prim_field_inv _ _ _ _ _ Hg) as (Hann & Hkaf & Hd).
      apply andb_true_iff in Hk as [Hknown Hk]. rewrite Hann, Hkaf, Hknown. cbn [andb].
      destruct (ntagged v n) eqn:Et; cbn [negb orb andb] in Hk |- *.
      2:{ destruct (is_client_id rh g); reflexivity. }
      apply andb_true_iff in Hk as [Hk Hnn]. apply andb_true_iff in Hk as [Hf Hdd].
      assert (Hdo : default_ok m g = true).
      { destruct (nf_default n) as [dd|].
        - destruct Hd as (x & Hx & Hgd). eapply default_ok_plain; eauto. eapply format_default_plain; eauto.
        - cbn [andb] in Hd. destruct (nf_ignorable n); cbn [orb] in Hdd.
          + eapply default_ok_plain; eauto. apply default_for_tagged_plain.
          + apply andb_true_iff in Hdd as [Hdd Hrec]. apply negb_true_iff in Hdd.
            unfold default_ok. rewrite Hd, Hann, Hkaf, Hdd. exact Hrec. }
      assert (Hdn : prim_optional v n p && nullable_kafka p = true -> default_is_none g = true).
      { intros Hon. rewrite Hon in Hnn. cbn [negb orb] in Hnn. unfold default_is_none.
        destruct (nf_default n) as [dd|].
        - destruct Hd as (x & Hx & Hgd). rewrite Hgd. apply orb_true_iff in Hnn as [Hn|Hn].
          + apply String.eqb_eq in Hn. subst dd. rewrite (format_default_null _ _ _ Hx). reflexivity.
          + apply andb_true_iff in Hn as [Hp Hn]. apply String.eqb_eq in Hp, Hn. subst p dd.
            rewrite (format_default_dt _ _ Hx). reflexivity.
        - apply andb_true_iff in Hon as [Hopt Hnul]. cbn [andb] in Hd.
          destruct (nf_ignorable n); cbn [orb] in Hdd.
          + rewrite Hd, (default_for_tagged_nullable _ Hnul). reflexivity.
          + rewrite Hopt in Hdd. discriminate. }
      rewrite Hdo, Hf. cbn [andb]. destruct (is_client_id rh g); [reflexivity|].
      destruct (prim_optional v n p && nullable_kafka p) eqn:E; [|reflexivity].
      rewrite (Hdn eq_refl). reflexivity.
    - (* array of primitives *)
      destruct (gen_prim_array_field_inv _ _ _ _ _ Hg) as (io & Hann & Hio & Hkaf & Hd).
      apply andb_true_iff in Hk as [Hknown Hk]. rewrite Hann, Hkaf, Hknown.
      rewrite (default_ok_plain m g _ Hd eq_refl), orb_true_r. cbn [andb].
      destruct (is_client_id rh g); [reflexivity|].
      assert (Hn : io && nullable_kafka p = false).
      { destruct io; [|reflexivity]. rewrite (uuid_not_nullable _ (Hio eq_refl)). reflexivity. }
      rewrite Hn. cbn [negb]. rewrite andb_true_r. exact Hk.
    - (* array of inline structs *)
      destruct (gen_struct_array_field_inv _ _ _ _ _ Hg) as (Hann & Hkaf & Hd).
      cbn [nested_of] in Hnest. rewrite Hann, Hkaf.
      assert (Hdo : negb (ntagged v n) || default_ok m g = true).
      { destruct (ntagged v n); [|reflexivity]. cbn [negb orb]. eapply default_ok_plain; eauto. }
      rewrite Hdo. cbn [andb]. destruct (is_client_id rh g); [reflexivity|].
      apply andb_true_iff in Hk as [Hnp Hai].
      rewrite (Href _ Hnest Hnp), (Harr _ Hai Hnest). reflexivity.
    - (* inline struct *)
      destruct (gen_entity_field_inline_inv _ _ _ _ _ _ _ Hg) as (Hann & Hkaf & Hshape & Hnone & _).
      cbn [nested_of] in Hnest. rewrite Hann, Hkaf.
      apply andb_true_iff in Hk as [Hnp Hopt].
      unfold needs_default_of in Hneed. rewrite Ek in Hneed.
      assert (Hdo : negb (ntagged v n) || default_ok m g = true).
      { destruct (ntagged v n) eqn:Et; [|reflexivity]. cbn [negb orb andb] in Hopt, Hneed |- *.
        destruct (ent_default_none d v n) eqn:Een.
        - unfold ent_default_none in Een. rewrite Ek, Et in Een.
          eapply default_ok_plain; [apply Hnone; exact Een|reflexivity].
        - cbn [negb] in Hneed. pose proof (Hdef _ Hneed Hnest) as Hcd.
          apply negb_true_iff in Hopt. unfold default_ok.
          destruct Hshape as [H|[H|H]]; rewrite H; [reflexivity|exact Hcd|].
          rewrite Hann, Hopt. exact Hcd. }
      rewrite Hdo. cbn [andb]. destruct (is_client_id rh g); [reflexivity|].
      rewrite (Href _ Hnest Hnp). cbn [andb]. exact Hopt.
    - (* array of common structs *)
      destruct (gen_struct_array_field_inv _ _ _ _ _ Hg) as (Hann & Hkaf & Hd).
      cbn [nested_of] in Hnest. destruct (find_common d s) as [cs|]; [|contradiction].
      rewrite Hann, Hkaf.
      assert (Hdo : negb (ntagged v n) || default_ok m g = true).
      { destruct (ntagged v n); [|reflexivity]. cbn [negb orb]. eapply default_ok_plain; eauto. }
      rewrite Hdo. cbn [andb]. destruct (is_client_id rh g); [reflexivity|].
      apply andb_true_iff in Hk as [Hnp Hai].
      rewrite (Href _ Hnest Hnp), (Harr _ Hai Hnest). reflexivity.
    - (* common struct *)
      destruct (gen_entity_field_common_inv _ _ _ _ _ _ Hg) as (Hann & Hkaf & Hd).
      cbn [nested_of] in Hnest. destruct (find_common d s) as [cs|]; [|contradiction].
      rewrite Hann, Hkaf.
      unfold needs_default_of, ent_default_none in Hneed. rewrite Ek in Hneed.
      assert (Hdo : negb (ntagged v n) || default_ok m g = true).
      { destruct (ntagged v n) eqn:Et; [|reflexivity]. cbn [negb orb andb] in Hd, Hneed |- *.
        destruct (nf_ignorable n); cbn [negb] in Hneed.
        - eapply default_ok_plain; eauto.
        - pose proof (Hdef _ Hneed Hnest) as Hcd. unfold default_ok. rewrite Hd, Hann. exact Hcd. }
      rewrite Hdo. cbn [andb]. destruct (is_client_id rh g); [reflexivity|].
      rewrite (Href _ Hnest Hk). rewrite andb_false_r. reflexivity.
  Qed.
End Transfer.

(* ---- class_default, one unfolding, and fields with class-independent defaults ---- *)
Definition cd_go (m : list gclass) (f : nat) : list gfield -> option (list value) :=
  fix go (fs : list gfield) : option (list value) :=
    match fs with
    | [] => Some []
    | g :: tl =>
        match (match gf_default g with
               | Some (GDEntity n) => class_default m f n
               | Some dd => gdefault_value (map gc_name m) dd
               | None => match gf_ann g, gf_kafka g with
                         | GPrim _ false, Some kt => implicit_opt kt
                         | GEnt n false, _ => class_default m f n
                         | _, _ => None
                         end
               end), go tl with
        | Some x, Some vs => Some (x :: vs)
        | _, _ => None
        end
    end.

Lemma class_default_S : forall m f s,
  class_default m (S f) s =
  match find (fun c => gc_name c =? s) m with
  | None => None
  | Some c => option_map VEnt (cd_go m f (gc_fields c))
  end.
Proof. reflexivity. Qed.

Definition g_simple (g : gfield) : bool :=
  match gf_default g with
  | Some x => gd_plain x
  | None => match gf_ann g, gf_kafka g with
            | GPrim _ false, Some kt => negb (kt =? "records")
            | _, _ => false
            end
  end.

Lemma Forall2_forallb : forall (A B : Type) (R : A -> B -> Prop) (P : A -> bool) (Q : B -> bool) l1 l2,
  Forall2 R l1 l2 -> (forall a b, P a = true -> R a b -> Q b = true) ->
  forallb P l1 = true -> forallb Q l2 = true.
Proof.
  intros A B R P Q l1 l2 HF HPQ. induction HF as [|a b l1 l2 Hab HF IH]; intros H; cbn [forallb] in *.
  - reflexivity.
  - apply andb_true_iff in H as [Ha Ht]. rewrite (HPQ _ _ Ha Hab), (IH Ht). reflexivity.
Qed.

Lemma Forall2_existsb : forall (A B : Type) (R : A -> B -> Prop) (P : A -> bool) (Q : B -> bool) l1 l2,
  Forall2 R l1 l2 -> (forall a b, P a = true -> R a b -> Q b = true) ->
  existsb P l1 = true -> existsb Q l2 = true.
Proof.
  intros A B R P Q l1 l2 HF HPQ. induction HF as [|a b l1 l2 Hab HF IH]; intros H; cbn [existsb] in *.
  - discriminate.
  - apply orb_true_iff in H as [Ha|Ht].
    + rewrite (HPQ _ _ Ha Hab). reflexivity.
    + rewrite (IH Ht). apply orb_true_r.
Qed.

Lemma Forall2_Forall_r : forall (A B : Type) (R : A -> B -> Prop) (P : A -> bool) (Q : B -> Prop) l1 l2,
  Forall2 R l1 l2 -> (forall a b, P a = true -> R a b -> Q b) ->
  forallb P l1 = true -> Forall Q l2.
Proof.
  intros A B R P Q l1 l2 HF HPQ. induction HF as [|a b l1 l2 Hab HF IH]; intros H; cbn [forallb] in *.
  - constructor.
  - apply andb_true_iff in H as [Ha Ht]. constructor; [exact (HPQ _ _ Ha Hab)|exact (IH Ht)].
Qed.

Lemma index_find : forall s (m : list gclass) j,
  index_of s (map gc_name m) 0 = Some j ->
  exists c, find (fun c => gc_name c =? s) m = Some c /\ nth_error m j = Some c /\ gc_name c = s.
Proof.
  intros s m. induction m as [|x tl IH]; intros j H; cbn [map] in H.
  - discriminate.
  - rewrite index_of_cons in H. cbn [find]. destruct (gc_name x =? s) eqn:Ex.
    + inversion H; subst j. exists x. apply String.eqb_eq in Ex. auto.
    + destruct (index_of s (map gc_name tl) 0) as [j'|]; [|discriminate]. cbn [option_map] in H.
      inversion H; subst j. destruct (IH j' eq_refl) as (c & Hf & Hn & Hc). exists c. auto.
Qed.

(* a field whose default is derivable, possibly through the default instance of an earlier,
   needed class *)
Definition g_dflt (needed earlier : list string) (g : gfield) : Prop :=
  g_simple g = true \/
  exists s, (gf_default g = Some (GDEntity s) \/ (gf_default g = None /\ gf_ann g = GEnt s false)) /\
            str_mem s needed = true /\ In s earlier.

Lemma cd_go_ok : forall m f gs,
  Forall (fun g => g_simple g = true \/
                   exists s, (gf_default g = Some (GDEntity s) \/ (gf_default g = None /\ gf_ann g = GEnt s false)) /\
                             exists x, class_default m f s = Some x) gs ->
  exists vs, cd_go m f gs = Some vs.
Proof.
  intros m f gs H. induction H as [|g tl Hg Ht IH].
  - exists []. reflexivity.
  - destruct IH as (vs & Hvs). cbn [cd_go]. fold (cd_go m f). rewrite Hvs.
    destruct Hg as [Hg|(s & Hsh & x & Hx)].
    + unfold g_simple in Hg. destruct (gf_default g) as [y|].
      * destruct y; try discriminate Hg; cbn [gdefault_value]; eexists; reflexivity.
      * destruct (gf_ann g) as [q [|]|q io|n o|n o]; try discriminate Hg.
        destruct (gf_kafka g) as [kt|]; [|discriminate]. unfold implicit_opt.
        destruct (kt =? "records"); [discriminate|]. eexists; reflexivity.
    + destruct Hsh as [Hd|[Hd Ha]].
      * rewrite Hd, Hx. eexists; reflexivity.
      * rewrite Hd, Ha, Hx. eexists; reflexivity.
Qed.

(* class defaults are derivable along the order of the module: the class at position j needs
   fuel j + 1 *)
Lemma class_default_positions : forall m needed,
  (forall j c, nth_error m j = Some c -> str_mem (gc_name c) needed = true ->
               Forall (g_dflt needed (class_names (firstn j m))) (gc_fields c)) ->
  forall f j s, index_of s (map gc_name m) 0 = Some j -> str_mem s needed = true -> (j <= f)%nat ->
  exists x, class_default m (S f) s = Some x.
Proof.
  intros m needed Hall f. induction f as [f IH] using (well_founded_induction lt_wf).
  intros j s Hj Hn Hle. rewrite class_default_S.
  destruct (index_find _ _ _ Hj) as (c & Hf & Hc & Hname). rewrite Hf.
  subst s. pose proof (Hall _ _ Hc Hn) as HF.
  assert (Hgo : exists vs, cd_go m f (gc_fields c) = Some vs).
  { apply cd_go_ok. eapply Forall_impl; [|exact HF]. intros g [Hs|(s' & Hsh & Hn' & Hin)]; [left; exact Hs|].
    right. exists s'. split; [exact Hsh|].
    assert (Hm : str_mem s' (firstn j (map gc_name m)) = true).
    { apply str_mem_spec. rewrite firstn_map. exact Hin. }
    destruct (str_mem_firstn_index _ _ _ Hm) as (j' & Hj' & Hlt & _).
    destruct f as [|f']; [lia|]. apply (IH f' (Nat.lt_succ_diag_r f') j' s' Hj' Hn'). lia. }
  destruct Hgo as (vs & Hvs). rewrite Hvs. eexists; reflexivity.
Qed.

Section ClassTransfer.
  Variable builtins : list string.
  Variable d : defn.
  Variable v : Z.
  Variable flex : bool.
  Variable needed : list string.
  Variable arr_items : list string.
  Local Notation commons := (map ds_name (d_common d)).

  Lemma nfield_nonempty_g : forall rh n g,
    nfield_nonempty v n = true -> gen_field builtins d v n = Ok g -> gfield_nonempty rh g = true.
  Proof.
    intros rh n g H Hg. unfold gfield_nonempty. rewrite (gen_field_tag _ _ _ _ _ Hg).
    unfold nfield_nonempty, ntagged in H. destruct (get_tag n v); [discriminate|]. cbn [negb andb] in H.
    unfold gen_field in Hg. destruct (nf_kind n) as [p|p|s sf|s sf|s|s].
    - destruct (gen_prim_field_inv _ _ _ _ _ Hg) as (-> & _). apply orb_true_r.
    - destruct (gen_prim_array_field_inv _ _ _ _ _ Hg) as (io & -> & _). apply orb_true_r.
    - destruct (gen_struct_array_field_inv _ _ _ _ _ Hg) as (-> & _). apply orb_true_r.
    - destruct (gen_entity_field_inline_inv _ _ _ _ _ _ _ Hg) as (-> & _). rewrite H. apply orb_true_r.
    - destruct (gen_struct_array_field_inv _ _ _ _ _ Hg) as (-> & _). apply orb_true_r.
    - discriminate.
  Qed.

  Lemma nfield_default_g : forall earlier n g,
    nfield_default_ok d v needed n = true -> frel builtins d v earlier n g -> g_dflt needed earlier g.
  Proof.
    intros earlier n g H [Hg Hnest]. unfold nfield_default_ok in H. unfold g_dflt, g_simple.
    unfold gen_field in Hg. destruct (nf_kind n) as [p|p|s sf|s sf|s|s] eqn:Ek.
    - left. destruct (gen_prim_field_inv _ _ _ _ _ Hg) as (Hann & Hkaf & Hd).
      destruct (nf_default n) as [dd|].
      + destruct Hd as (x & Hx & ->). eapply format_default_plain; eauto.
      + rewrite Hd. destruct (ntagged v n && nf_ignorable n); cbn [orb] in H.
        * apply default_for_tagged_plain.
        * apply andb_true_iff in H as [H Hrec]. apply negb_true_iff in H.
          rewrite Hann, Hkaf, H. exact Hrec.
    - left. destruct (gen_prim_array_field_inv _ _ _ _ _ Hg) as (io & _ & _ & _ & ->). reflexivity.
    - left. destruct (gen_struct_array_field_inv _ _ _ _ _ Hg) as (_ & _ & ->). rewrite H. reflexivity.
    - destruct (gen_entity_field_inline_inv _ _ _ _ _ _ _ Hg) as (Hann & _ & Hshape & Hnone & _).
      cbn [nested_of] in Hnest.
      destruct (ent_default_none d v n) eqn:Een.
      + left. unfold ent_default_none in Een. rewrite Ek in Een. rewrite (Hnone Een). reflexivity.
      + cbn [orb] in H. apply andb_true_iff in H as [Hn Hnl]. apply negb_true_iff in Hnl.
        destruct Hshape as [Hd|[Hd|Hd]].
        * left. rewrite Hd. reflexivity.
        * right. exists s. split; [left; exact Hd|]. split; assumption.
        * right. exists s. split; [right; split; [exact Hd|rewrite Hann, Hnl; reflexivity]|]. split; assumption.
    - left. destruct (gen_struct_array_field_inv _ _ _ _ _ Hg) as (_ & _ & ->). rewrite H. reflexivity.
    - destruct (gen_entity_field_common_inv _ _ _ _ _ _ Hg) as (Hann & _ & Hd).
      cbn [nested_of] in Hnest. destruct (find_common d s) as [cs|]; [|contradiction].
      unfold ent_default_none in H. rewrite Ek in H.
      destruct (ntagged v n && nf_ignorable n); cbn [orb] in H.
      + left. rewrite Hd. reflexivity.
      + right. exists s. split; [right; split; assumption|]. split; assumption.
  Qed.

  Lemma frel_tags : forall earlier ns gs,
    Forall2 (frel builtins d v earlier) ns gs -> gtags gs = ntags v ns.
  Proof.
    intros earlier ns gs HF. unfold gtags, ntags.
    induction HF as [|n g ns gs [Hg _] HF IH]; cbn [flat_map]; [reflexivity|].
    rewrite (gen_field_tag _ _ _ _ _ Hg), IH. reflexivity.
  Qed.

  Lemma cinv_class_ok : forall m k top c,
    cinv builtins d v flex needed arr_items (firstn k m) top c ->
    (forall s, str_mem s arr_items = true -> In s (class_names (firstn k m)) -> arr_item_ok m s = true) ->
    (forall s, str_mem s needed = true -> In s (class_names (firstn k m)) -> class_default_ok m s = true) ->
    class_ok m k c = true.
  Proof.
    intros m k top c (name & fields & gs & -> & Hso & HF) Harr Hdef.
    unfold struct_ok in Hso. cbv zeta in Hso.
    apply andb_true_iff in Hso as [Hso _]. apply andb_true_iff in Hso as [Hso _].
    apply andb_true_iff in Hso as [Hfs Hnd].
    unfold class_ok. cbn [mk_class gc_flexible gc_name gc_fields].
    rewrite (frel_tags _ _ _ HF), Hnd, andb_true_r.
    eapply Forall2_forallb; [exact HF| |exact Hfs].
    intros n g Hn Hr. eapply nfield_field_ok; eauto.
  Qed.

  Lemma cinv_nonempty : forall earlier top c,
    cinv builtins d v flex needed arr_items earlier top c -> str_mem (gc_name c) arr_items = true ->
    gclass_nonempty c = true.
  Proof.
    intros earlier top c (name & fields & gs & -> & Hso & HF) Hai.
    cbn [mk_class gc_name] in Hai.
    unfold struct_ok in Hso. cbv zeta in Hso.
    apply andb_true_iff in Hso as [Hso _]. apply andb_true_iff in Hso as [_ Hne].
    rewrite Hai in Hne. cbn [negb] in Hne. rewrite orb_false_r in Hne.
    unfold gclass_nonempty. cbn [mk_class gc_flexible gc_name gc_fields].
    destruct flex; [reflexivity|]. cbn [orb] in Hne |- *.
    eapply Forall2_existsb; [exact HF| |exact Hne].
    intros n g Hn [Hg _]. eapply nfield_nonempty_g; eauto.
  Qed.

  Lemma cinv_dflt : forall earlier top c,
    cinv builtins d v flex needed arr_items earlier top c -> str_mem (gc_name c) needed = true ->
    Forall (g_dflt needed (class_names earlier)) (gc_fields c).
  Proof.
    intros earlier top c (name & fields & gs & -> & Hso & HF) Hn.
    cbn [mk_class gc_name gc_fields] in *.
    unfold struct_ok in Hso. cbv zeta in Hso. apply andb_true_iff in Hso as [_ Hsd].
    rewrite Hn in Hsd. cbn [negb orb] in Hsd.
    eapply Forall2_Forall_r; [exact HF| |exact Hsd].
    intros n g Hs Hr. eapply nfield_default_g; eauto.
  Qed.
End ClassTransfer.

Lemma classes_ok_intro : forall m suf k,
  (forall j c, nth_error suf j = Some c -> class_ok m (k + j) c = true) -> classes_ok m k suf = true.
Proof.
  intros m suf. induction suf as [|c tl IH]; intros k H; cbn [classes_ok]; [reflexivity|].
  assert (Hc : class_ok m k c = true).
  { rewrite <- (Nat.add_0_r k). apply (H 0%nat). reflexivity. }
  rewrite Hc. cbn [andb]. apply IH. intros j c' Hj. rewrite Nat.add_succ_comm. apply (H (S j)). exact Hj.
Qed.

(* Stage B *)
Theorem defn_ok_module_ok : forall builtins d v, defn_ok builtins d v = true ->
  exists m, gen_module builtins d v = Ok m /\ module_ok m = true.
Proof.
  intros builtins d v H. unfold defn_ok in H.
  destruct (parse_vrange (d_flexible d)) as [fr|e] eqn:Ep; [|discriminate].
  apply andb_true_iff in H as [Hgen Hall].
  destruct (gen_module builtins d v) as [m|e] eqn:Eg; [|discriminate]. clear Hgen.
  exists m. split; [reflexivity|].
  set (flex := vmatches fr v) in *.
  set (needed := needed_names d v) in *.
  set (arr_items := arr_item_names d v (gen_fuel d + 2) (d_fields d)) in *.
  unfold gen_module in Eg. rewrite Ep in Eg. cbn [rbind] in Eg. fold flex in Eg.
  assert (Hnil : InvN builtins d v flex needed arr_items []).
  { intros k c Hk. destruct k; discriminate. }
  destruct (gen_class_provenance _ _ _ _ needed arr_items _ _ _ _ _ _ Eg Hall Hnil)
    as [->|(seen' & gs & -> & Hi & Hc)].
  { apply gen_class_has_name in Eg. destruct Eg. }
  clear Eg Hnil Hall.
  set (topc := mk_class d v flex (d_name d) true gs) in *.
  set (m0 := seen' ++ [topc]).
  assert (Hlen : List.length m0 = S (List.length seen')).
  { unfold m0. rewrite app_length. cbn [List.length]. lia. }
  assert (Hpos : forall p c, nth_error m0 p = Some c ->
            exists top, cinv builtins d v flex needed arr_items (firstn p m0) top c).
  { intros p c Hp. unfold m0 in *. destruct (Nat.lt_ge_cases p (List.length seen')) as [Hlt|Hge].
    - exists false. rewrite nth_error_app1 in Hp by exact Hlt. rewrite firstn_app.
      replace (p - List.length seen')%nat with 0%nat by lia. cbn [firstn]. rewrite app_nil_r.
      apply Hi. exact Hp.
    - rewrite nth_error_app2 in Hp by exact Hge.
      destruct (p - List.length seen')%nat as [|j] eqn:E; [|destruct j; discriminate].
      cbn in Hp. inversion Hp; subst c. assert (p = List.length seen') by lia. subst p.
      exists true. rewrite firstn_app, Nat.sub_diag, firstn_all. cbn [firstn].
      rewrite app_nil_r. exact Hc. }
  (* positions of names *)
  assert (Hidx : forall p s, In s (class_names (firstn p m0)) ->
            exists j c, index_of s (map gc_name m0) 0 = Some j /\ (j < p)%nat /\
                        find (fun c => gc_name c =? s) m0 = Some c /\ nth_error m0 j = Some c /\ gc_name c = s).
  { intros p s Hs.
    assert (Hm : str_mem s (firstn p (map gc_name m0)) = true).
    { apply str_mem_spec. rewrite firstn_map. exact Hs. }
    destruct (str_mem_firstn_index _ _ _ Hm) as (j & Hj & Hlt & _).
    destruct (index_find _ _ _ Hj) as (c & Hf & Hn & Hname). exists j, c. auto. }
  assert (Hdfl : forall j c, nth_error m0 j = Some c -> str_mem (gc_name c) needed = true ->
            Forall (g_dflt needed (class_names (firstn j m0))) (gc_fields c)).
  { intros j c Hj Hn. destruct (Hpos _ _ Hj) as (top & Hcv). eapply cinv_dflt; eauto. }
  unfold module_ok. apply classes_ok_intro. intros p c Hp. cbn [Nat.add].
  destruct (Hpos _ _ Hp) as (top & Hcv).
  eapply cinv_class_ok; [exact Hcv| |].
  - intros s Hai Hs. destruct (Hidx _ _ Hs) as (j & c' & Hj & Hlt & Hf & Hn & Hname).
    unfold arr_item_ok. rewrite Hf. destruct (Hpos _ _ Hn) as (top' & Hcv').
    eapply cinv_nonempty; [exact Hcv'|]. rewrite Hname. exact Hai.
  - intros s Hnd Hs. destruct (Hidx _ _ Hs) as (j & c' & Hj & Hlt & Hf & Hn & Hname).
    unfold class_default_ok.
    assert (Hjl : (j <= List.length m0)%nat).
    { apply Nat.lt_le_incl. apply nth_error_Some. rewrite Hn. discriminate. }
    destruct (class_default_positions m0 needed Hdfl (List.length m0) j s Hj Hnd Hjl) as (x & Hx).
    rewrite Hx. reflexivity.
Qed.

Theorem defn_ok_wf : forall builtins d v, defn_ok builtins d v = true -> def_wf builtins d v = true.
Proof.
  intros builtins d v H. destruct (defn_ok_module_ok _ _ _ H) as (m & Hg & Hm).
  unfold def_wf, def_plans. rewrite Hg.
  destruct (module_ok_plans m Hm) as (ps & Hp & _). rewrite Hp.
  eapply module_ok_wf; eauto.
Qed.
Print Assumptions defn_ok_wf.

(* ------------------------------------------------------------------------------------ *)
(* defn_ok is satisfiable: a definition with a duration field, an error code, arrays of    *)
(* nested structs two levels deep, a tagged struct whose members all have defaults (its    *)
(* default is an instance of the nested class), a primitive array, nullable records, a    *)
(* nullable inline struct, a tagged nullable string and a common struct; versions 0 and 1  *)
(* are not flexible, 2 to 4 are                                                            *)
(* ------------------------------------------------------------------------------------ *)
Definition example_defn : defn :=
  {| d_name := "ExampleResponse"; d_kind := "response"; d_api_key := Some 1%Z; d_valid := "0-4";
     d_flexible := "2+";
     d_fields :=
       [ DF "ThrottleTimeMs" "int32" (Some "1+") None None None true None None None;
         DF "ErrorCode" "int16" (Some "0+") None None None false None None None;
         DF "Topics" "[]TopicData" (Some "0+") None None None false None None
            (Some [ DF "Name" "string" (Some "0+") None None None false None (Some "topicName") None;
                    DF "Partitions" "[]PartitionData" (Some "0+") None None None false None None
                       (Some [ DF "Index" "int32" (Some "0+") None None None false None None None;
                               DF "Leader" "LeaderInfo" (Some "3+") None (Some "3+") (Some 0%Z) false None None
                                  (Some [ DF "LeaderId" "int32" (Some "3+") None None None false (Some "-1") None None;
                                          DF "LeaderEpoch" "int32" (Some "3+") None None None false (Some "-1") None None ]);
                               DF "Replicas" "[]int32" (Some "0+") None None None false None None None;
                               DF "Records" "records" (Some "0+") (Some "0+") None None false None None None ]) ]);
         DF "Owner" "Principal" (Some "1+") (Some "1+") None None false (Some "null") None
            (Some [ DF "Kind" "string" (Some "1+") None None None false None None None ]);
         DF "ClusterId" "string" (Some "3+") (Some "3+") (Some "3+") (Some 0%Z) true (Some "null") None None;
         DF "Node" "Endpoint" (Some "2+") None None None false None None None ];
     d_common := [ {| ds_name := "Endpoint"; ds_versions := "2+";
                      ds_fields := [ DF "Host" "string" (Some "2+") None None None false None None None;
                                     DF "Port" "uint16" (Some "2+") None None None false None None None ] |} ] |}.

Example defn_ok_nonvacuous :
  forallb (defn_ok [] example_defn) [0; 1; 2; 3; 4]%Z = true /\
  rmap class_names (gen_module [] example_defn 3) =
    Ok ["LeaderInfo"; "PartitionData"; "TopicData"; "Principal"; "Endpoint"; "ExampleResponse"] /\
  needed_names example_defn 3 = ["LeaderInfo"].
Proof. vm_compute. repeat split; reflexivity. Qed.

(* hence, by the theorem *)
Example example_defn_wf : forall v, In v [0; 1; 2; 3; 4]%Z -> def_wf [] example_defn v = true.
Proof.
  intros v Hv. apply defn_ok_wf.
  pose proof (proj1 defn_ok_nonvacuous) as H. rewrite forallb_forall in H. apply H. exact Hv.
Qed.

(* defn_ok rejects what def_wf rejects: a tag in a version that is not flexible, a duplicate
   tag, a tagged float64, a tagged nullable string whose default is not null, an array over a
   structure without fields in a non-flexible version *)
Definition tiny_defn (flexible : string) (fields : list dfield) : defn :=
  {| d_name := "Tiny"; d_kind := "data"; d_api_key := None; d_valid := "0-1"; d_flexible := flexible;
     d_fields := fields; d_common := [] |}.
Definition defn_both_reject (d : defn) (v : Z) : bool := negb (defn_ok [] d v) && negb (def_wf [] d v).
Example defn_ok_rejects :
  defn_both_reject (tiny_defn "1+" [DF "Ab" "int32" (Some "0+") None (Some "0+") (Some 0%Z) false None None None]) 0 = true /\
  defn_ok [] (tiny_defn "1+" [DF "Ab" "int32" (Some "0+") None (Some "0+") (Some 0%Z) false None None None]) 1 = true /\
  defn_both_reject (tiny_defn "0+" [DF "Ab" "int32" (Some "0+") None (Some "0+") (Some 0%Z) false None None None;
                                    DF "Cd" "int32" (Some "0+") None (Some "0+") (Some 0%Z) false None None None]) 0 = true /\
  defn_both_reject (tiny_defn "0+" [DF "Ab" "float64" (Some "0+") None (Some "0+") (Some 0%Z) false None None None]) 0 = true /\
  defn_both_reject (tiny_defn "0+" [DF "Ab" "string" (Some "0+") (Some "0+") (Some "0+") (Some 0%Z) false (Some "x") None None]) 0 = true /\
  defn_both_reject (tiny_defn "1+" [DF "Ab" "[]Cd" (Some "0+") None None None false None None (Some [])]) 0 = true /\
  defn_ok [] (tiny_defn "1+" [DF "Ab" "[]Cd" (Some "0+") None None None false None None (Some [])]) 1 = true.
Proof. vm_compute. repeat split; reflexivity. Qed.

(* ------------------------------------------------------------------------------------ *)
(* How permissive are the two predicates?  On two enumerated families they are EXACT:      *)
(* module_ok m = wf_env (plans of m) on 30720 two-class modules, and                        *)
(* defn_ok d 0 = def_wf d 0 on 4032 definitions (by evaluation; the theorems give one       *)
(* direction in general).                                                                  *)
(* ------------------------------------------------------------------------------------ *)
Definition fam_bools := [true; false].
Definition fam_field (name : string) (ann : gann) (kt : option string) (tag : option Z) (dd : option gdefault) : gfield :=
  {| gf_name := name; gf_ann := ann; gf_kafka := kt; gf_tag := tag; gf_default := dd |}.
Definition fam_class (name : string) (fl : bool) (fs : list gfield) : gclass :=
  {| gc_name := name; gc_type := "t"; gc_version := 0%Z; gc_flexible := fl; gc_api_key := None;
     gc_header := None; gc_fields := fs |}.
Definition fam_anns : list gann :=
  flat_map (fun o => [GPrim "q" o; GPrimArr "q" o; GEnt "Nested" o; GEnt "Top" o; GEnt "Missing" o;
                      GEnt "<no plan>" o; GEntArr "Nested" o; GEntArr "<no plan>" o]) fam_bools.
Definition fam_kafka : list (option string) :=
  [None; Some "string"; Some "float64"; Some "int32"; Some "records"; Some "bogus"].
Definition fam_tags : list (option Z) := [None; Some 0; Some (-1); Some 5]%Z.
Definition fam_defaults : list (option gdefault) :=
  [None; Some GDNone; Some (GDEntity "Nested"); Some GDEmptyTuple].
Definition fam_nested : list (list gfield) :=
  [ []; [fam_field "a" (GPrim "q" false) (Some "int8") None None];
    [fam_field "a" (GPrim "q" true) (Some "string") None None];
    [fam_field "a" (GEnt "Missing" false) None None None];
    [fam_field "a" (GPrim "q" false) (Some "records") None None] ].
Definition fam_modules (fl : bool) (nf : list gfield) (nname : string) : list (list gclass) :=
  flat_map (fun ann => flat_map (fun kt => flat_map (fun tag => map (fun dd =>
    [fam_class nname fl nf;
     fam_class "Top" fl [fam_field "x" ann kt tag dd;
                         fam_field "y" (GPrim "q" false) (Some "int8") (if fl then Some 5%Z else None) None]])
    fam_defaults) fam_tags) fam_kafka) fam_anns.
Definition fam_outer : list (bool * list gfield * string) :=
  flat_map (fun fl => flat_map (fun nf => map (fun nn => (fl, nf, nn)) ["Nested"; "<no plan>"]) fam_nested) fam_bools.
Definition module_agrees (m : list gclass) : bool :=
  Bool.eqb (module_ok m) (match plans_of_module m with Some ps => wf_env ps | None => false end).

Example module_ok_exact_on_family :
  (forallb (fun '(fl, nf, nn) => forallb module_agrees (fam_modules fl nf nn)) fam_outer
   && Z.eqb (Z.of_nat (fold_right (fun '(fl, nf, nn) acc => (List.length (fam_modules fl nf nn) + acc)%nat) 0%nat fam_outer)) 30720
   && existsb (fun '(fl, nf, nn) => existsb module_ok (fam_modules fl nf nn)) fam_outer) = true.
Proof. vm_cast_no_check (eq_refl true). Qed.

Definition fam_inner : list (list dfield) :=
  [ []; [DF "In" "int32" (Some "0+") None None None false None None None];
    [DF "In" "int32" (Some "0+") None None None false (Some "7") None None];
    [DF "In" "int32" (Some "0+") None (Some "0+") (Some 3%Z) false None None None];
    [DF "In" "Deep" (Some "0+") None None None false None None
        (Some [DF "Zz" "int8" (Some "0+") None None None false None None None])];
    [DF "In" "records" (Some "0+") None None None false None None None] ].
Definition fam_types : list (string * bool) :=   (* type, has inline fields *)
  [("int32", false); ("string", false); ("float64", false); ("uuid", false); ("bytes", false);
   ("[]int32", false); ("[]string", false); ("[]Cd", true); ("Cd", true); ("[]Common", false);
   ("Common", false); ("Tiny", true); ("<no plan>", true); ("records", false)].
Definition fam_defns (flexible : string) (inner : list dfield) : list defn :=
  flat_map (fun ty : string * bool => flat_map (fun nullable : option string =>
  flat_map (fun tagged : bool => flat_map (fun ign : bool => map (fun dflt : option string =>
    {| d_name := "Tiny"; d_kind := "data"; d_api_key := None; d_valid := "0"; d_flexible := flexible;
       d_fields := [ DF "Xy" (fst ty) (Some "0+") nullable (if tagged then Some "0+" else None)
                        (if tagged then Some 0%Z else None) ign dflt None
                        (if snd ty then Some inner else None);
                     DF "Other" "int16" (Some "0+") None (if tagged then Some "0+" else None)
                        (if tagged then Some 1%Z else None) false None None None ];
       d_common := [ {| ds_name := "Common"; ds_versions := "0+"; ds_fields := inner |} ] |})
    [None; Some "null"; Some "1"]) fam_bools) fam_bools) [None; Some "0+"]) fam_types.
Definition defn_agrees (d : defn) : bool := Bool.eqb (defn_ok [] d 0) (def_wf [] d 0).

Example defn_ok_exact_on_family :
  (forallb (fun fx => forallb (fun inner => forallb defn_agrees (fam_defns fx inner)) fam_inner) ["0+"; "none"]
   && Z.eqb (Z.of_nat (fold_right (fun fx acc => fold_right (fun inner acc' => (List.length (fam_defns fx inner) + acc')%nat) acc fam_inner)
                                  0%nat ["0+"; "none"])) 4032
   && Z.eqb (Z.of_nat (fold_right (fun fx acc => fold_right (fun inner acc' =>
                (List.length (filter (fun d => defn_ok [] d 0) (fam_defns fx inner)) + acc')%nat) acc fam_inner)
                                  0%nat ["0+"; "none"])) 1774) = true.
Proof. vm_cast_no_check (eq_refl true). Qed.

(* `records` has no implicit default (kio raises NotImplementedError): a tagged records field
   without an explicit default has no plan, and a class with a non-optional records field without
   default has no derivable default instance; with an explicit (null) default, or ignorable, it
   is fine.  Both predicates follow def_wf / wf_env. *)
Example records_have_no_implicit_default :
  both_reject (tiny true [tfield (GPrim "q" false) (Some "records") (Some 0%Z) None]) = true /\
  module_ok (tiny true [tfield (GPrim "q" false) (Some "records") None None]) = true /\
  module_ok (tiny true [tfield (GPrim "q" true) (Some "records") (Some 0%Z) (Some GDNone)]) = true /\
  defn_both_reject (tiny_defn "0+" [DF "Ab" "records" (Some "0+") None (Some "0+") (Some 0%Z) false None None None]) 0 = true /\
  defn_ok [] (tiny_defn "0+" [DF "Ab" "records" (Some "0+") None (Some "0+") (Some 0%Z) true None None None]) 0 = true /\
  defn_ok [] (tiny_defn "0+" [DF "Ab" "records" (Some "0+") (Some "0+") (Some "0+") (Some 0%Z) false (Some "null") None None]) 0 = true /\
  defn_ok [] (tiny_defn "0+" [DF "Ab" "records" (Some "0+") None None None false None None None]) 0 = true /\
  (* a tagged struct whose default instance would need a default for a records member *)
  defn_both_reject (tiny_defn "0+" [DF "Ab" "Cd" (Some "0+") None (Some "0+") (Some 0%Z) false None None
                                       (Some [DF "In" "records" (Some "0+") None None None false None None None])]) 0 = true.
Proof. vm_compute. repeat split; reflexivity. Qed.
