(* Structural theorems about the code-generator model (property C16): the generated module
   contains one class per structure visible in that version, whose fields are exactly the
   definition's fields valid for that version, in order, with the naming convention applied,
   tagged as the definition states, plus the right flexibility, API key and header. *)
From Coq Require Import ZArith List Bool String Ascii Lia.
From KioV Require Import Base.Res Schema.Strings Gen.Gen.
Import ListNotations.
Open Scope string_scope.
Open Scope list_scope.

(* ------------------------------------------------------------------------------------ *)
(* 1. version ranges mean what the spellings say                                          *)
(* ------------------------------------------------------------------------------------ *)
Lemma vmatches_single : forall n v, vmatches (VR n (Some n)) v = Z.eqb v n.
Proof.
  intros n v. unfold vmatches.
  destruct (Z.eqb_spec v n) as [->|Hne].
  - rewrite Z.leb_refl. reflexivity.
  - destruct (Z.leb_spec n v), (Z.leb_spec v n); simpl; try reflexivity. lia.
Qed.

Lemma vmatches_closed : forall lo hi v, vmatches (VR lo (Some hi)) v = true <-> (lo <= v <= hi)%Z.
Proof. intros. unfold vmatches. rewrite andb_true_iff, !Z.leb_le. tauto. Qed.

Lemma vmatches_open : forall lo v, vmatches (VR lo None) v = true <-> (lo <= v)%Z.
Proof. intros. unfold vmatches. apply Z.leb_le. Qed.

Lemma vmatches_none : forall v, vmatches VNone v = false.
Proof. reflexivity. Qed.

Lemma parse_vrange_examples :
  parse_vrange "none" = Ok VNone /\ parse_vrange "3" = Ok (VR 3 (Some 3%Z))
  /\ parse_vrange "2-7" = Ok (VR 2 (Some 7%Z)) /\ parse_vrange "4+" = Ok (VR 4 None)
  /\ parse_vrange "x" = Err EValue.
Proof. vm_compute. repeat split; reflexivity. Qed.

(* ------------------------------------------------------------------------------------ *)
(* 2. a field's tag is present exactly when the version lies in taggedVersions            *)
(* ------------------------------------------------------------------------------------ *)
Lemma get_tag_spec : forall f v t, get_tag f v = Some t <->
  (exists r, nf_tagged f = Some r /\ vmatches r v = true /\ nf_tag f = Some t).
Proof.
  intros f v t. unfold get_tag. split.
  - destruct (nf_tagged f) as [r|]; [|discriminate].
    destruct (vmatches r v) eqn:E; [|discriminate].
    intros H. exists r. auto.
  - intros (r & -> & -> & H). exact H.
Qed.

(* ------------------------------------------------------------------------------------ *)
(* 6. header rule, by cases                                                               *)
(* ------------------------------------------------------------------------------------ *)
Lemma header_rule : forall d v flex,
  (d_kind d = "request" -> header_of d v flex = Some (if (Z.eqb v 0 && match d_api_key d with Some 7%Z => true | _ => false end)%bool then "kio.schema.request_header.v0.header" else if flex then "kio.schema.request_header.v2.header" else "kio.schema.request_header.v1.header")) /\
  (d_kind d = "response" -> header_of d v flex = Some (if match d_api_key d with Some 18%Z => true | _ => false end then "kio.schema.response_header.v0.header" else if flex then "kio.schema.response_header.v1.header" else "kio.schema.response_header.v0.header")) /\
  (d_kind d <> "request" -> d_kind d <> "response" -> header_of d v flex = None).
Proof.
  intros d v flex. unfold header_of. split; [|split].
  - intros ->. reflexivity.
  - intros ->. reflexivity.
  - intros H1 H2. apply String.eqb_neq in H1, H2. rewrite H1, H2. reflexivity.
Qed.

(* ------------------------------------------------------------------------------------ *)
(* helpers                                                                                *)
(* ------------------------------------------------------------------------------------ *)
Lemma str_mem_spec : forall x l, str_mem x l = true <-> In x l.
Proof.
  intros x l. induction l as [|y tl IH]; simpl.
  - split; [discriminate | tauto].
  - rewrite orb_true_iff, String.eqb_eq, IH. split; intros [H|H]; auto.
Qed.

Lemma str_mem_false : forall x l, str_mem x l = false <-> ~ In x l.
Proof.
  intros x l. rewrite <- str_mem_spec. destruct (str_mem x l); split; intros; congruence.
Qed.

Lemma NoDup_snoc : forall (A : Type) (l : list A) (x : A),
  NoDup l -> ~ In x l -> NoDup (l ++ [x]).
Proof.
  intros A l x. induction l as [|a tl IH]; simpl; intros Hn Hx.
  - constructor; [intros []|constructor].
  - inversion Hn; subst. constructor.
    + rewrite in_app_iff. simpl. intros [H|[H|[]]]; [auto|]. subst. apply Hx. auto.
    + apply IH; auto.
Qed.

Lemma class_names_app : forall a b, class_names (a ++ b) = class_names a ++ class_names b.
Proof. intros. unfold class_names. apply map_app. Qed.

(* which nested structure (name, member fields) a normalised field refers to, if any *)
Definition nested_of (d : defn) (k : nkind) : res (option (string * list dfield)) :=
  match k with
  | KPrim _ | KPrimArr _ => Ok None
  | KEntArr s fs | KEnt s fs => Ok (Some (s, fs))
  | KCommonArr s | KCommon s =>
      match find_common d s with Some cs => Ok (Some (s, ds_fields cs)) | None => Err EValue end
  end.

(* ------------------------------------------------------------------------------------ *)
(* The inner loop of gen_class, standalone, and its relational characterisation           *)
(* ------------------------------------------------------------------------------------ *)
Section Loop.
  Variable builtins : list string.
  Variable d : defn.
  Variable v : Z.
  Variable rec : string -> bool -> list dfield -> list gclass -> res (list gclass).
  Local Notation commons := (map ds_name (d_common d)).

  Fixpoint go_loop (fs : list dfield) (seen : list gclass) (acc : list gfield) {struct fs}
    : res (list gclass * list gfield) :=
    match fs with
    | [] => Ok (seen, rev acc)
    | f :: tl =>
        match normalise commons f with
        | Err e => Err e
        | Ok n =>
            if negb (vmatches (nf_versions n) v) then go_loop tl seen acc else
            match nf_kind n with
            | KPrim p => rbind (gen_prim_field builtins n p v) (fun g => go_loop tl seen (g :: acc))
            | KPrimArr p => rbind (gen_prim_array_field builtins n p v) (fun g => go_loop tl seen (g :: acc))
            | KEntArr sname sfields =>
                rbind (rec sname false sfields seen) (fun seen' =>
                rbind (gen_struct_array_field builtins n sname v) (fun g => go_loop tl seen' (g :: acc)))
            | KEnt sname sfields =>
                rbind (rec sname false sfields seen) (fun seen' =>
                rbind (gen_entity_field builtins commons n sname (Some sfields) v) (fun g => go_loop tl seen' (g :: acc)))
            | KCommonArr sname =>
                match find_common d sname with
                | None => Err EValue
                | Some cs => rbind (rec sname false (ds_fields cs) seen) (fun seen' =>
                             rbind (gen_struct_array_field builtins n sname v) (fun g => go_loop tl seen' (g :: acc)))
                end
            | KCommon sname =>
                match find_common d sname with
                | None => Err EValue
                | Some cs => rbind (rec sname false (ds_fields cs) seen) (fun seen' =>
                             rbind (gen_entity_field builtins commons n sname None v) (fun g => go_loop tl seen' (g :: acc)))
                end
            end
        end
    end.

  (* what every generated field records about its source: the snake-cased name and the tag *)
  Definition gfact (n : nfield) (g : gfield) : Prop :=
    to_snake_case builtins (nf_name n) = Ok (gf_name g) /\ gf_tag g = get_tag n v.

  Lemma gen_prim_field_fact : forall n p g, gen_prim_field builtins n p v = Ok g -> gfact n g.
  Proof.
    intros n p g. unfold gen_prim_field, gfact.
    destruct (to_snake_case builtins (nf_name n)) as [s|e]; cbn [rbind]; [|discriminate].
    match goal with |- rbind ?X _ = _ -> _ => destruct X as [dd|e] end; cbn [rbind]; [|discriminate].
    intros H. inversion H; subst; clear H. simpl. auto.
  Qed.

  Lemma gen_prim_array_field_fact : forall n p g, gen_prim_array_field builtins n p v = Ok g -> gfact n g.
  Proof.
    intros n p g. unfold gen_prim_array_field, gfact.
    destruct (to_snake_case builtins (nf_name n)) as [s|e]; cbn [rbind]; [|discriminate].
    intros H. inversion H; subst; clear H. simpl. auto.
  Qed.

  Lemma gen_struct_array_field_fact : forall n s g, gen_struct_array_field builtins n s v = Ok g -> gfact n g.
  Proof.
    intros n p g. unfold gen_struct_array_field, gfact.
    destruct (to_snake_case builtins (nf_name n)) as [s|e]; cbn [rbind]; [|discriminate].
    intros H. inversion H; subst; clear H. simpl. auto.
  Qed.

  Lemma gen_entity_field_fact : forall cm n s ms g, gen_entity_field builtins cm n s ms v = Ok g -> gfact n g.
  Proof.
    intros cm n p ms g. unfold gen_entity_field, gfact.
    destruct (to_snake_case builtins (nf_name n)) as [s|e]; cbn [rbind]; [|discriminate].
    match goal with |- rbind ?X _ = _ -> _ => destruct X as [dd|e] end; cbn [rbind]; [|discriminate].
    intros H. inversion H; subst; clear H. simpl. auto.
  Qed.

  (* loop_rel fs seen seen' gs: running the loop over fs from `seen` ends with `seen'` and
     produces the generated fields gs (in order) *)
  Inductive loop_rel : list dfield -> list gclass -> list gclass -> list gfield -> Prop :=
  | LR_nil : forall seen, loop_rel [] seen seen []
  | LR_skip : forall f n tl seen seen' gs,
      normalise commons f = Ok n -> vmatches (nf_versions n) v = false ->
      loop_rel tl seen seen' gs -> loop_rel (f :: tl) seen seen' gs
  | LR_leaf : forall f n tl seen seen' gs g,
      normalise commons f = Ok n -> vmatches (nf_versions n) v = true ->
      nested_of d (nf_kind n) = Ok None -> gfact n g ->
      loop_rel tl seen seen' gs -> loop_rel (f :: tl) seen seen' (g :: gs)
  | LR_struct : forall f n tl seen seen1 seen' gs g sname sfields,
      normalise commons f = Ok n -> vmatches (nf_versions n) v = true ->
      nested_of d (nf_kind n) = Ok (Some (sname, sfields)) ->
      rec sname false sfields seen = Ok seen1 -> gfact n g ->
      loop_rel tl seen1 seen' gs -> loop_rel (f :: tl) seen seen' (g :: gs).

  Lemma go_loop_rel : forall fs seen acc seen' out,
    go_loop fs seen acc = Ok (seen', out) ->
    exists gs, out = rev acc ++ gs /\ loop_rel fs seen seen' gs.
  Proof.
    induction fs as [|f tl IH]; intros seen acc seen' out H.
    - simpl in H. inversion H; subst. exists []. rewrite app_nil_r. split; [reflexivity|constructor].
    - cbn [go_loop] in H.
      destruct (normalise commons f) as [n|e] eqn:En; [|discriminate].
      destruct (vmatches (nf_versions n) v) eqn:Ev; cbn [negb] in H; cbv iota in H.
      2:{ apply IH in H as (gs & -> & R). exists gs. split; [reflexivity|]. eapply LR_skip; eauto. }
      assert (Hcons : forall g gs, rev (g :: acc) ++ gs = rev acc ++ g :: gs).
      { intros. simpl. rewrite <- app_assoc. reflexivity. }
      destruct (nf_kind n) as [p|p|s sf|s sf|s|s] eqn:Ek.
      + destruct (gen_prim_field builtins n p v) as [g|e] eqn:Eg; cbn [rbind] in H; [|discriminate].
        apply IH in H as (gs & -> & R). exists (g :: gs). split; [apply Hcons|].
        eapply LR_leaf; eauto. rewrite Ek; reflexivity. eapply gen_prim_field_fact; eauto.
      + destruct (gen_prim_array_field builtins n p v) as [g|e] eqn:Eg; cbn [rbind] in H; [|discriminate].
        apply IH in H as (gs & -> & R). exists (g :: gs). split; [apply Hcons|].
        eapply LR_leaf; eauto. rewrite Ek; reflexivity. eapply gen_prim_array_field_fact; eauto.
      + destruct (rec s false sf seen) as [s1|e] eqn:Er; cbn [rbind] in H; [|discriminate].
        destruct (gen_struct_array_field builtins n s v) as [g|e] eqn:Eg; cbn [rbind] in H; [|discriminate].
        apply IH in H as (gs & -> & R). exists (g :: gs). split; [apply Hcons|].
        eapply LR_struct; eauto. rewrite Ek; reflexivity. eapply gen_struct_array_field_fact; eauto.
      + destruct (rec s false sf seen) as [s1|e] eqn:Er; cbn [rbind] in H; [|discriminate].
        destruct (gen_entity_field builtins commons n s (Some sf) v) as [g|e] eqn:Eg; cbn [rbind] in H; [|discriminate].
        apply IH in H as (gs & -> & R). exists (g :: gs). split; [apply Hcons|].
        eapply LR_struct; eauto. rewrite Ek; reflexivity. eapply gen_entity_field_fact; eauto.
      + destruct (find_common d s) as [cs|] eqn:Ef; [|discriminate].
        destruct (rec s false (ds_fields cs) seen) as [s1|e] eqn:Er; cbn [rbind] in H; [|discriminate].
        destruct (gen_struct_array_field builtins n s v) as [g|e] eqn:Eg; cbn [rbind] in H; [|discriminate].
        apply IH in H as (gs & -> & R). exists (g :: gs). split; [apply Hcons|].
        eapply LR_struct; eauto. rewrite Ek; simpl; rewrite Ef; reflexivity.
        eapply gen_struct_array_field_fact; eauto.
      + destruct (find_common d s) as [cs|] eqn:Ef; [|discriminate].
        destruct (rec s false (ds_fields cs) seen) as [s1|e] eqn:Er; cbn [rbind] in H; [|discriminate].
        destruct (gen_entity_field builtins commons n s None v) as [g|e] eqn:Eg; cbn [rbind] in H; [|discriminate].
        apply IH in H as (gs & -> & R). exists (g :: gs). split; [apply Hcons|].
        eapply LR_struct; eauto. rewrite Ek; simpl; rewrite Ef; reflexivity.
        eapply gen_entity_field_fact; eauto.
  Qed.

  (* any reflexive-transitive relation respected by the recursive calls is respected by the loop *)
  Lemma loop_rel_preserves (P : list gclass -> list gclass -> Prop) :
    (forall s, P s s) -> (forall a b c, P a b -> P b c -> P a c) ->
    (forall name top fs s s', rec name top fs s = Ok s' -> P s s') ->
    forall fs seen seen' gs, loop_rel fs seen seen' gs -> P seen seen'.
  Proof.
    intros Hr Ht Hrec fs seen seen' gs R. induction R; eauto.
  Qed.
End Loop.

(* ------------------------------------------------------------------------------------ *)
(* gen_class, one unfolding                                                               *)
(* ------------------------------------------------------------------------------------ *)
Lemma gen_class_S : forall builtins d v flex fuel name top fields seen,
  gen_class builtins d v flex (S fuel) name top fields seen =
  if str_mem name (class_names seen) then Ok seen else
  rbind (go_loop builtins d v (gen_class builtins d v flex fuel) fields seen [])
        (fun r => Ok (fst r ++ [mk_class d v flex name top (snd r)])).
Proof. intros. reflexivity. Qed.

Lemma gen_class_inv : forall builtins d v flex fuel name top fields seen l,
  gen_class builtins d v flex fuel name top fields seen = Ok l ->
  exists fuel', fuel = S fuel' /\
    ((str_mem name (class_names seen) = true /\ l = seen) \/
     (str_mem name (class_names seen) = false /\
      exists seen' gs,
        loop_rel builtins d v (gen_class builtins d v flex fuel') fields seen seen' gs /\
        l = seen' ++ [mk_class d v flex name top gs])).
Proof.
  intros builtins d v flex fuel name top fields seen l H.
  destruct fuel as [|fuel']; [discriminate|]. exists fuel'. split; [reflexivity|].
  rewrite gen_class_S in H.
  destruct (str_mem name (class_names seen)) eqn:Em.
  - left. inversion H. auto.
  - right. split; [reflexivity|].
    destruct (go_loop builtins d v (gen_class builtins d v flex fuel') fields seen []) as [[s' out]|e] eqn:E;
      cbn [rbind] in H; [|discriminate].
    apply go_loop_rel in E as (gs & Eo & R). simpl in Eo. subst out.
    inversion H. simpl. eauto.
Qed.

(* ------------------------------------------------------------------------------------ *)
(* 3. what gen_class emits                                                                *)
(* ------------------------------------------------------------------------------------ *)
Definition field_of (builtins : list string) (commons : list string) (v : Z) (f : dfield) (g : gfield) : Prop :=
  exists n, normalise commons f = Ok n /\ vmatches (nf_versions n) v = true /\
            to_snake_case builtins (nf_name n) = Ok (gf_name g) /\ gf_tag g = get_tag n v.
Definition valid_at (commons : list string) (v : Z) (f : dfield) : bool :=
  match normalise commons f with Ok n => vmatches (nf_versions n) v | Err _ => false end.

(* the loop produces exactly one generated field per definition field valid at v, in order *)
Lemma loop_rel_fields : forall builtins d v rec fs seen seen' gs,
  loop_rel builtins d v rec fs seen seen' gs ->
  Forall2 (field_of builtins (map ds_name (d_common d)) v)
          (filter (valid_at (map ds_name (d_common d)) v) fs) gs.
Proof.
  intros builtins d v rec fs seen seen' gs R. induction R.
  - constructor.
  - simpl. unfold valid_at at 1. rewrite H, H0. exact IHR.
  - simpl. unfold valid_at at 1. rewrite H, H0. constructor; [|exact IHR].
    destruct H2 as [Hn Ht]. exists n. auto.
  - simpl. unfold valid_at at 1. rewrite H, H0. constructor; [|exact IHR].
    destruct H3 as [Hn Ht]. exists n. auto.
Qed.

(* gen_class only appends to `seen` *)
Lemma gen_class_app : forall builtins d v flex fuel name top fields seen l,
  gen_class builtins d v flex fuel name top fields seen = Ok l -> exists mid, l = seen ++ mid.
Proof.
  intros builtins d v flex fuel. induction fuel as [|fuel IH]; intros name top fields seen l H.
  - discriminate.
  - apply gen_class_inv in H as (fuel' & Ef & [[_ ->]|[_ (seen' & gs & R & ->)]]).
    + exists []. rewrite app_nil_r. reflexivity.
    + inversion Ef; subst fuel'.
      apply (loop_rel_preserves builtins d v _ (fun s s' => exists mid, s' = s ++ mid)) in R.
      * destruct R as [mid ->]. exists (mid ++ [mk_class d v flex name top gs]).
        rewrite app_assoc. reflexivity.
      * intros s. exists []. rewrite app_nil_r. reflexivity.
      * intros a b c [m1 ->] [m2 ->]. exists (m1 ++ m2). rewrite app_assoc. reflexivity.
      * intros n t fs s s' Hs. eapply IH; eauto.
Qed.

Lemma loop_rel_app : forall builtins d v flex fuel fs seen seen' gs,
  loop_rel builtins d v (gen_class builtins d v flex fuel) fs seen seen' gs ->
  exists mid, seen' = seen ++ mid.
Proof.
  intros builtins d v flex fuel fs seen seen' gs R.
  apply (loop_rel_preserves builtins d v _ (fun s s' => exists mid, s' = s ++ mid)) in R; auto.
  - intros s. exists []. rewrite app_nil_r. reflexivity.
  - intros a b c [m1 ->] [m2 ->]. exists (m1 ++ m2). rewrite app_assoc. reflexivity.
  - intros n t fs' s s' Hs. eapply gen_class_app; eauto.
Qed.

Theorem gen_class_fields : forall builtins d v flex fuel name top fields seen l,
  gen_class builtins d v flex fuel name top fields seen = Ok l ->
  str_mem name (class_names seen) = false ->
  exists mid fs, l = seen ++ mid ++ [mk_class d v flex name top fs] /\
                 Forall2 (field_of builtins (map ds_name (d_common d)) v)
                         (filter (valid_at (map ds_name (d_common d)) v) fields) fs.
Proof.
  intros builtins d v flex fuel name top fields seen l H Hm.
  apply gen_class_inv in H as (fuel' & Ef & [[Hm' _]|[_ (seen' & gs & R & ->)]]); [congruence|].
  destruct (loop_rel_app _ _ _ _ _ _ _ _ _ R) as [mid ->].
  exists mid, gs. split.
  - rewrite app_assoc. reflexivity.
  - eapply loop_rel_fields; eauto.
Qed.
Print Assumptions gen_class_fields.

Theorem gen_class_seen : forall builtins d v flex fuel name top fields seen l,
  gen_class builtins d v flex fuel name top fields seen = Ok l ->
  str_mem name (class_names seen) = true -> l = seen.
Proof.
  intros builtins d v flex fuel name top fields seen l H Hm.
  apply gen_class_inv in H as (fuel' & Ef & [[_ ->]|[Hm' _]]); [reflexivity|congruence].
Qed.
Print Assumptions gen_class_seen.

(* ------------------------------------------------------------------------------------ *)
(* 4. version, flexibility, API key and header of every emitted class                     *)
(* ------------------------------------------------------------------------------------ *)
Definition carries (d : defn) (v : Z) (flex : bool) (c : gclass) : Prop :=
  gc_version c = v /\ gc_flexible c = flex /\ gc_header c = header_of d v flex /\
  gc_api_key c = (if (String.eqb (d_kind d) "request" || String.eqb (d_kind d) "response")%bool then d_api_key d else None).

Lemma mk_class_carries : forall d v flex name top fs, carries d v flex (mk_class d v flex name top fs).
Proof. intros. unfold carries, mk_class. simpl. auto. Qed.

Theorem gen_class_carries : forall builtins d v flex fuel name top fields seen l,
  gen_class builtins d v flex fuel name top fields seen = Ok l ->
  Forall (carries d v flex) seen -> Forall (carries d v flex) l.
Proof.
  intros builtins d v flex fuel. induction fuel as [|fuel IH]; intros name top fields seen l H Hs.
  - discriminate.
  - apply gen_class_inv in H as (fuel' & Ef & [[_ ->]|[_ (seen' & gs & R & ->)]]); [exact Hs|].
    inversion Ef; subst fuel'.
    assert (HP : Forall (carries d v flex) seen -> Forall (carries d v flex) seen').
    { apply (loop_rel_preserves builtins d v (gen_class builtins d v flex fuel)
               (fun s s' => Forall (carries d v flex) s -> Forall (carries d v flex) s')) with (fs := fields) (gs := gs).
      - intros s Hx; exact Hx.
      - intros a b c Hab Hbc Ha. exact (Hbc (Hab Ha)).
      - intros n t fs s s' Hg. eapply IH; eauto.
      - exact R. }
    apply Forall_app. split; [exact (HP Hs)|]. constructor; [apply mk_class_carries|constructor].
Qed.
Print Assumptions gen_class_carries.

Theorem gen_module_carries : forall builtins d v l flexr,
  parse_vrange (d_flexible d) = Ok flexr -> gen_module builtins d v = Ok l ->
  Forall (carries d v (vmatches flexr v)) l /\
  exists mid fs, l = mid ++ [mk_class d v (vmatches flexr v) (d_name d) true fs].
Proof.
  intros builtins d v l flexr Hp H. unfold gen_module in H. rewrite Hp in H. cbn [rbind] in H.
  split.
  - eapply gen_class_carries; eauto.
  - apply gen_class_fields in H; [|reflexivity].
    destruct H as (mid & fs & -> & _). exists mid, fs. reflexivity.
Qed.
Print Assumptions gen_module_carries.

(* the fields of the module's top-level class, spelled out *)
Corollary gen_module_fields : forall builtins d v l flexr,
  parse_vrange (d_flexible d) = Ok flexr -> gen_module builtins d v = Ok l ->
  exists mid fs, l = mid ++ [mk_class d v (vmatches flexr v) (d_name d) true fs] /\
    Forall2 (field_of builtins (map ds_name (d_common d)) v)
            (filter (valid_at (map ds_name (d_common d)) v) (d_fields d)) fs.
Proof.
  intros builtins d v l flexr Hp H. unfold gen_module in H. rewrite Hp in H. cbn [rbind] in H.
  apply gen_class_fields in H; [|reflexivity].
  destruct H as (mid & fs & -> & HF). exists mid, fs. split; [reflexivity|exact HF].
Qed.
Print Assumptions gen_module_fields.

(* ------------------------------------------------------------------------------------ *)
(* 5. class names in a module are pairwise distinct                                       *)
(* ------------------------------------------------------------------------------------ *)
(* The statement "NoDup (class_names seen) -> NoDup (class_names l)" is FALSE for the model as
   it stands: `seen` only holds classes already emitted, and a class is emitted AFTER its nested
   classes, so a structure that (transitively) contains a nested structure with its own name is
   emitted twice (see gen_class_names_nodup_needs_hyp below).  The hypothesis that makes it true:
   along every chain of nesting (inline or through common structs), restricted to fields valid
   at v, no structure name repeats. *)
Fixpoint no_self_nesting (d : defn) (v : Z) (fuel : nat) (path : list string) (fields : list dfield)
  {struct fuel} : bool :=
  match fuel with
  | O => true
  | S fuel' =>
      forallb (fun f =>
        match normalise (map ds_name (d_common d)) f with
        | Ok n =>
            if vmatches (nf_versions n) v then
              match nested_of d (nf_kind n) with
              | Ok (Some (sname, sfields)) =>
                  negb (str_mem sname path) && no_self_nesting d v fuel' (sname :: path) sfields
              | _ => true
              end
            else true
        | Err _ => true
        end) fields
  end.

Lemma gen_class_nodup_gen : forall builtins d v flex fuel name top fields seen l path,
  gen_class builtins d v flex fuel name top fields seen = Ok l ->
  NoDup (class_names seen) ->
  no_self_nesting d v fuel (name :: path) fields = true ->
  ~ In name path ->
  exists new, l = seen ++ new /\ NoDup (class_names l) /\
              (forall x, In x (class_names new) -> ~ In x path).
Proof.
  intros builtins d v flex fuel. induction fuel as [|fuel IH];
    intros name top fields seen l path H Hnd Hp Hnp.
  - discriminate.
  - apply gen_class_inv in H as (fuel' & Ef & [[_ ->]|[Hm (seen' & gs & R & ->)]]).
    + exists []. rewrite app_nil_r. split; [reflexivity|]. split; [exact Hnd|]. intros x [].
    + inversion Ef; subst fuel'. clear Ef.
      cbn [no_self_nesting] in Hp.
      (* the loop: new names avoid name :: path *)
      assert (HL : exists new, seen' = seen ++ new /\ NoDup (class_names seen') /\
                               (forall x, In x (class_names new) -> ~ In x (name :: path))).
      { clear Hm. revert Hnd Hp. induction R; intros Hnd Hp.
        - exists []. rewrite app_nil_r. split; [reflexivity|]. split; [exact Hnd|]. intros x [].
        - cbn [forallb] in Hp. apply andb_true_iff in Hp as [_ Hp]. apply IHR; auto.
        - cbn [forallb] in Hp. apply andb_true_iff in Hp as [_ Hp]. apply IHR; auto.
        - cbn [forallb] in Hp. apply andb_true_iff in Hp as [Hh Hp].
          rewrite H, H0, H1 in Hh. apply andb_true_iff in Hh as [Hh1 Hh2].
          apply negb_true_iff in Hh1. apply str_mem_false in Hh1.
          destruct (IH _ _ _ _ _ _ H2 Hnd Hh2 Hh1) as (new1 & -> & Hnd1 & Hav1).
          destruct (IHR Hnd1 Hp) as (new2 & -> & Hnd2 & Hav2).
          exists (new1 ++ new2). split; [rewrite app_assoc; reflexivity|]. split; [exact Hnd2|].
          intros x Hx. rewrite class_names_app, in_app_iff in Hx. destruct Hx; auto. }
      destruct HL as (new & -> & Hnd' & Hav).
      exists (new ++ [mk_class d v flex name top gs]). split; [rewrite app_assoc; reflexivity|].
      split.
      * rewrite class_names_app. cbn [class_names map gc_name mk_class]. apply NoDup_snoc; [exact Hnd'|].
        rewrite class_names_app, in_app_iff. intros [Hi|Hi].
        -- apply str_mem_false in Hm. auto.
        -- apply (Hav _ Hi). left; reflexivity.
      * intros x Hx. rewrite class_names_app, in_app_iff in Hx. destruct Hx as [Hx|Hx].
        -- intros Hxp. apply (Hav _ Hx). right; exact Hxp.
        -- cbn in Hx. destruct Hx as [<-|[]]. exact Hnp.
Qed.

Theorem gen_class_names_nodup : forall builtins d v flex fuel name top fields seen l,
  gen_class builtins d v flex fuel name top fields seen = Ok l ->
  no_self_nesting d v fuel [name] fields = true ->
  NoDup (class_names seen) -> NoDup (class_names l).
Proof.
  intros builtins d v flex fuel name top fields seen l H Hp Hnd.
  destruct (gen_class_nodup_gen _ _ _ _ _ _ _ _ _ _ [] H Hnd Hp) as (new & _ & Hn & _); auto.
Qed.
Print Assumptions gen_class_names_nodup.

Theorem gen_module_names_nodup : forall builtins d v l,
  gen_module builtins d v = Ok l ->
  no_self_nesting d v (gen_fuel d + 2) [d_name d] (d_fields d) = true ->
  NoDup (class_names l).
Proof.
  intros builtins d v l H Hp. unfold gen_module in H.
  destruct (parse_vrange (d_flexible d)) as [flexr|e]; cbn [rbind] in H; [|discriminate].
  eapply gen_class_names_nodup; eauto. constructor.
Qed.
Print Assumptions gen_module_names_nodup.

(* the extra hypothesis is needed: a structure containing a nested structure of the same name
   is emitted twice by the model *)
Definition self_nested_defn : defn :=
  {| d_name := "Ab"; d_kind := "data"; d_api_key := None; d_valid := "0"; d_flexible := "none";
     d_fields := [DF "Xy" "Ab" (Some "0+") None None None false None None (Some [])];
     d_common := [] |}.

Lemma gen_class_names_nodup_needs_hyp :
  exists builtins d v flex fuel name top fields seen l,
    gen_class builtins d v flex fuel name top fields seen = Ok l /\
    NoDup (class_names seen) /\ ~ NoDup (class_names l).
Proof.
  exists [], self_nested_defn, 0%Z, false, 3, "Ab", true, (d_fields self_nested_defn), [].
  eexists. split; [vm_compute; reflexivity|]. split; [constructor|].
  cbn. intros Hn. inversion Hn; subst. apply H1. left; reflexivity.
Qed.
Print Assumptions gen_class_names_nodup_needs_hyp.

(* the hypothesis is decidable by computation and separates the two situations *)
Example no_self_nesting_examples :
  no_self_nesting self_nested_defn 0 (gen_fuel self_nested_defn + 2) ["Ab"] (d_fields self_nested_defn) = false
  /\ let d := {| d_name := "Ab"; d_kind := "data"; d_api_key := None; d_valid := "0"; d_flexible := "none";
                 d_fields := [DF "Xy" "Cd" (Some "0+") None None None false None None
                                 (Some [DF "Zw" "[]Ef" (Some "0+") None None None false None None None]);
                              DF "Uv" "Ef" (Some "0+") None None None false None None None];
                 d_common := [{| ds_name := "Ef"; ds_versions := "0+"; ds_fields := [] |}] |} in
     no_self_nesting d 0 (gen_fuel d + 2) [d_name d] (d_fields d) = true
     /\ rmap class_names (gen_module [] d 0) = Ok ["Ef"; "Cd"; "Ab"].
Proof. vm_compute. repeat split; reflexivity. Qed.
