(* What the definition prescribes on the wire, read off the generated class descriptions
   directly (not through kio's introspection): per field the codec determined by the Kafka
   type, compact vs legacy by the version's flexibility, nullable iff the annotation is optional,
   arrays, nested structs by name, tagged iff a tag is present.  Definitions only. *)
From Coq Require Import ZArith List Bool String.
From KioV Require Import Base.Res Codec.Value Codec.PrimCodec Schema.Introspect Schema.Strings Codec.Typed Gen.Gen.
Import ListNotations.
Open Scope string_scope.

Definition pcodec_of (kt : string) (flexible optional : bool) : option pcodec :=
  if kt =? "int8" then Some (PInt 1 true) else if kt =? "int16" then Some (PInt 2 true)
  else if kt =? "int32" then Some (PInt 4 true) else if kt =? "int64" then Some (PInt 8 true)
  else if kt =? "uint16" then Some (PInt 2 false) else if kt =? "uint32" then Some (PInt 4 false)
  else if kt =? "uint64" then Some (PInt 8 false) else if kt =? "float64" then Some PF64
  else if kt =? "string" then Some (PStr flexible optional)
  else if (kt =? "bytes") || (kt =? "records") then Some (PBytes flexible optional)
  else if kt =? "uuid" then Some PUuid else if kt =? "bool" then Some PBool
  else if kt =? "error_code" then Some PErrorCode
  else if kt =? "timedelta_i32" then Some PTd32 else if kt =? "timedelta_i64" then Some PTd64
  else if kt =? "datetime_i64" then Some (PDt optional) else None.

Fixpoint index_of (name : string) (l : list string) (i : nat) : option nat :=
  match l with [] => None | x :: tl => if x =? name then Some i else index_of name tl (S i) end.

Definition gdefault_value (names : list string) (d : gdefault) : option value :=
  match d with
  | GDNone => Some VNull | GDInt z | GDErrorCode z => Some (VInt z) | GDBool b => Some (VBool b)
  | GDStr s => Some (VStr (map (fun c => Z.of_nat (Ascii.nat_of_ascii c)) (list_ascii_of_string s)))
  | GDMillis ms => Some (VDur (ms * 1000)%Z) | GDEmptyTuple => Some (VArr [])
  | GDFloatText _ => Some (VF64 0)
  | GDEntity _ => None        (* resolved by the caller from the nested class's field defaults *)
  end.

Section Plan.
  Variable module : list gclass.
  Let names := map gc_name module.

  (* implicit default of a tagged field without explicit default (Kafka: zero / empty) *)
  Definition implicit_of (kt : string) : value :=
    if str_mem kt ["int8"; "int16"; "int32"; "int64"; "uint16"; "uint32"; "uint64"; "error_code"] then VInt 0
    else if kt =? "float64" then VF64 0 else if kt =? "bool" then VBool false
    else if kt =? "string" then VStr [] else if (kt =? "bytes") then VBytes []
    else if kt =? "uuid" then VUuid (repeat 0%Z 16)
    else if (kt =? "timedelta_i32") || (kt =? "timedelta_i64") then VDur 0
    else if kt =? "datetime_i64" then VTime 0 else VNull.

  (* kio: get_implicit_default raises NotImplementedError for Records ("Tagged record fields are
     not supported"): no implicit default, hence no codec, for a tagged records field without default *)
  Definition implicit_opt (kt : string) : option value :=
    if kt =? "records" then None else Some (implicit_of kt).

  Fixpoint class_default (fuel : nat) (name : string) : option value :=
    match fuel with
    | O => None
    | S f =>
        match find (fun c => gc_name c =? name) module with
        | None => None
        | Some c =>
            let fix go (fs : list gfield) : option (list value) :=
              match fs with
              | [] => Some []
              | g :: tl =>
                  match (match gf_default g with
                         | Some (GDEntity n) => class_default f n
                         | Some d => gdefault_value names d
                         | None => match gf_ann g, gf_kafka g with
                                   | GPrim _ false, Some kt => implicit_opt kt
                                   | GEnt n false, _ => class_default f n
                                   | _, _ => None
                                   end
                         end), go tl with
                  | Some v, Some vs => Some (v :: vs)
                  | _, _ => None
                  end
              end in
            option_map VEnt (go (gc_fields c))
        end
    end.

  Definition plan_of_gfield (flexible is_rh : bool) (g : gfield) : option fplan2 :=
    let tagged := match gf_tag g with Some _ => true | None => false end in
    let codecs : option (codec * codec) :=
      if is_rh && (gf_name g =? "client_id") then Some (CPrim (PStr false true), CPrim (PStr false true)) else
      match gf_ann g, gf_kafka g with
      | GPrim _ opt, Some kt =>
          match pcodec_of kt flexible opt, pcodec_of kt flexible (if tagged then false else opt) with
          | Some r, Some w => Some (CPrim r, CPrim w) | _, _ => None
          end
      | GPrimArr _ iopt, Some kt =>
          match pcodec_of kt flexible iopt, pcodec_of kt flexible (if tagged then false else iopt) with
          | Some r, Some w => Some (CArr flexible (CPrim r), CArr flexible (CPrim w)) | _, _ => None
          end
      | GEnt n opt, None =>
          match index_of n names 0 with
          | Some i => Some (CEnt i opt, CEnt i (if tagged then false else opt)) | None => None
          end
      | GEntArr n _, None =>
          match index_of n names 0 with
          | Some i => Some (CArr flexible (CEnt i false), CArr flexible (CEnt i false)) | None => None
          end
      | _, _ => None
      end in
    match codecs with
    | None => None
    | Some (r, w) =>
        let dflt :=
          if tagged then
            match gf_default g with
            | Some (GDEntity n) => class_default (S (List.length module)) n
            | Some d => gdefault_value names d
            | None => match gf_ann g, gf_kafka g with
                      | GPrim _ false, Some kt => implicit_opt kt
                      | GEnt n false, _ => class_default (S (List.length module)) n
                      | _, _ => None
                      end
            end
          else Some VNull in
        match dflt with
        | Some d => Some {| f2_name := gf_name g; f2_r := r; f2_w := w; f2_tag := gf_tag g; f2_default := d |}
        | None => None
        end
    end.

  Fixpoint all_some {A} (l : list (option A)) : option (list A) :=
    match l with
    | [] => Some []
    | Some a :: tl => option_map (cons a) (all_some tl)
    | None :: _ => None
    end.

  Definition plan_of_gclass (c : gclass) : option cplan2 :=
    option_map (fun fs => {| c2_name := gc_name c; c2_flexible := gc_flexible c; c2_fields := fs |})
      (all_some (map (plan_of_gfield (gc_flexible c) (gc_name c =? "RequestHeader")) (gc_fields c))).
End Plan.

(* a class for which no codec can be derived (e.g. an optional tagged struct without a default:
   kio raises TypeError when building its reader/writer): a plan on which the encoder fails *)
Definition unplannable : cplan2 :=
  {| c2_name := "<no plan>"; c2_flexible := false;
     c2_fields := [{| f2_name := "<no plan>"; f2_r := CEnt 9999 false; f2_w := CEnt 9999 false;
                      f2_tag := None; f2_default := VNull |}] |}.
Fixpoint codec_refs (c : codec) : list nat :=
  match c with CPrim _ => [] | CEnt i _ => [i] | CArr _ item => codec_refs item end.

(* kio builds the nested readers/writers when it builds a class's own, so a class whose nested
   class has no plan has none either; classes are listed dependencies first *)
Definition plans_of_module (m : list gclass) : option (list cplan2) :=
  Some (fold_left (fun acc c =>
          let p := match plan_of_gclass m c with Some p => p | None => unplannable end in
          let refs := flat_map (fun f => codec_refs (f2_w f)) (c2_fields p) in
          let ok := forallb (fun i => match nth_error acc i with
                                      | Some q => negb (c2_name q =? "<no plan>")
                                      | None => false
                                      end) refs in
          (acc ++ [if ok then p else unplannable])%list) m []).

(* the plans read off the definition for version v, and their well-formedness *)
Definition def_plans (builtins : list string) (d : defn) (v : Z) : option (list cplan2) :=
  match gen_module builtins d v with Ok m => plans_of_module m | Err _ => None end.
Definition def_wf (builtins : list string) (d : defn) (v : Z) : bool :=
  match def_plans builtins d v with Some ps => wf_env ps | None => false end.
