#!/bin/bash
# Builds the generic Coq theory from the files on disk (offline). Instance data is built per check.
set -e
cd "$(dirname "$0")/coq"
coq_makefile -f _CoqProject -o Makefile > /dev/null
ulimit -s unlimited 2>/dev/null || true
timeout 3000 make -j16 > ../build_setup.log 2>&1 || { tail -30 ../build_setup.log; exit 1; }
grep -c "Closed under the global context" ../build_setup.log || true
