#!/bin/bash
# Independent re-check of the compiled development: forbidden constructs, Print Assumptions of every
# property file, and coqchk (the standalone checker) over all property files with its axiom report.
cd "$(dirname "$0")/coq"
echo "== forbidden constructs"; grep -rnE '\b(Admitted|admit|Axiom|Parameter|Conjecture|Unset Guard|bypass_check)\b' --include=*.v . ../inst | grep -v "^\./.*(\*" || echo none
echo "== Print Assumptions"; for f in Props/C*.v; do n=$(timeout 600 coqc -Q . KioV $f 2>&1 | grep -c "Closed under the global context"); a=$(timeout 600 coqc -Q . KioV $f 2>&1 | grep -c "^Axioms:"); echo "$f closed=$n axioms=$a"; done
echo "== coqchk"; mods=$(ls Props/C*.v | sed 's#/#.#; s#\.v$##; s#^#KioV.#'); timeout 3000 coqchk -silent -o -Q . KioV $mods 2>&1 | tail -25
